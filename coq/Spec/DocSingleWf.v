(* DocSingleWf - the single-segment analogue of Spec/DocWf.v: a condition on the DOCUMENT (its only
   segment, the section lists, the files, the user's symbol assignments), not on the generated
   statements, that implies [doc_single_wf], the hypothesis of the document-level link theorems of
   single-segment mode (Properties/C03DocSingle.v).

   [doc_symbols_single d rt] lists, by recursion over the document, the target of every "sym = value"
   statement (SAssign) of the script that gen_normal produces in single-segment mode, with
   multiplicity ([defs] of Spec/DocWf.v counts them in a script; DocSingleWf_symbols_count).  The only
   other statements that change a symbol are ". = ALIGN(., n)" ([upds] of the script is made of "."
   only: there is no __romPos and no class symbol in this mode).  The list is split into
     - the _gp that slinky itself defines ([doc_gp_symbols_single]: the hard-coded value of the
       settings and the gp_info of the segment; harmless when repeated),
     - the location counter ([doc_dot_symbols_single]: ". = fixed_vram" IS a "sym = value" statement),
     - the rest ([doc_named_symbols_single]): the names the script records for the symbols header
       ([doc_header_symbols_single] of Spec/C13Doc.v: for the allocatable and then for the noload half
       X_alloc_VRAM, for every section X_SEC_START, the linker offsets of the files as
       emit_section_for_file visits them, X_SEC_END, X_SEC_SIZE, then X_alloc_VRAM_END,
       X_alloc_VRAM_SIZE) followed by the user's own symbol_assignments whose conditions hold.
   A document in single-segment mode with exactly one segment whose named symbols have no repetition,
   are not "." and, when slinky defines _gp, are not _gp, whose section lists have no duplicate and
   contain no allow-list name, is well-formed for the link theorems ([doc_single_names_distinct],
   DocSingleWf_sufficient). *)
From Slinky Require Import Model.Types Model.Runtime Model.Style Model.Script Model.Writer Model.LdSem.
From Slinky Require Import Spec.C18 Spec.C04 Spec.DocLevel Spec.C01Doc Spec.DocWf Spec.DocSingle Spec.C13Doc.
Local Open Scope string_scope.

(* ---------- the symbols of the single-segment script ---------- *)

(* the "_gp" that slinky itself defines for the segment [seg]: the hard-coded value (fix F7, at the head
   of SECTIONS) and one for each section of the lists that the gp_info names (its conditions holding) *)
Definition single_gp_symbols (rt : runtime) (stg : settings) (seg : segment) : list string :=
  (hardcoded_gp_symbols stg ++ seg_gp_symbols rt seg)%list.

(* ". = fixed_vram" *)
Definition single_dot_symbols (seg : segment) : list string :=
  match sg_fixed_vram seg with Some _ => ["."] | None => [] end.

(* the two halves of the segment (the section_offsets of Spec/DocWf.v do not depend on the writer's
   configuration, only the recursion of emit_section_for_file without reference_partial_objects, which
   is the one of cfg_normal) and the user's assignments *)
Definition single_named_symbols (rt : runtime) (sty : style) (seg : segment) (l : list symbol_assignment)
  : list string :=
  (part_symbols rt sty seg false ++ part_symbols rt sty seg true ++ user_symbols rt l)%list.

Definition doc_gp_symbols_single (d : document) (rt : runtime) : list string :=
  match doc_segments d with
  | [seg] => single_gp_symbols rt (doc_settings d) seg
  | _ => []
  end.

Definition doc_dot_symbols_single (d : document) : list string :=
  match doc_segments d with
  | [seg] => single_dot_symbols seg
  | _ => []
  end.

(* every other symbol defined by a "sym = value" statement: the recorded names of the script
   (C13_document_single_recorded), then the user's own assignments *)
Definition doc_named_symbols_single (d : document) (rt : runtime) : list string :=
  (doc_header_symbols_single d rt ++ user_symbols rt (doc_symbol_assignments d))%list.

(* the target of every "sym = value" statement, with multiplicity (DocSingleWf_symbols_count) *)
Definition doc_symbols_single (d : document) (rt : runtime) : list string :=
  (doc_gp_symbols_single d rt ++ doc_dot_symbols_single d ++ doc_named_symbols_single d rt)%list.

(* ---------- the condition on the document ---------- *)

(* when slinky defines _gp, no other definition is called _gp (as gp_separate of Spec/DocWf.v) *)
Definition gp_separate_single (d : document) (rt : runtime) : bool :=
  match doc_gp_symbols_single d rt with
  | [] => true
  | _ => negb (mem_str "_gp" (doc_named_symbols_single d rt))
  end.

(* single-segment mode and exactly one segment; apart from slinky's own _gp and the location counter no
   symbol is defined twice, and none is the location counter; the segment lists no section twice; no
   section is called like an allow-list entry *)
Definition doc_single_names_distinct (d : document) (rt : runtime) : bool :=
  single_segment_mode (doc_settings d) &&
  match doc_segments d with
  | [seg] =>
      nodup_str (doc_named_symbols_single d rt) &&
      gp_separate_single d rt &&
      negb (mem_str "." (doc_named_symbols_single d rt)) &&
      nodup_str (seg_sections seg) &&
      forallb (fun sec => negb (mem_str sec (aux_section_names (doc_settings d)))) (seg_sections seg)
  | _ => false
  end.

(* ---------- sample data ---------- *)

(* under the Splat style (section name upper-cased, "." replaced by "_") the sections ".text" and
   "_text" of one segment have the same symbols main_TEXT_START, main_TEXT_END, main_TEXT_SIZE *)
Definition dsw_segment (alloc : list string) : segment :=
  Segment "main" [ex_obj "boot.o"] (Some 2147484672%N) None None None "src" None no_conds
          alloc [".bss"] None None None None None [] [] true None [] KAbsent.

Definition dsw_clash_splat_doc : document :=
  Document ex_settings_single [] [dsw_segment [".text"; "_text"]] None [] [] [].

(* the same settings with the Makerom style: the leading "." is dropped and the name capitalised, so
   ".text" and "text" both give _mainSegmentTextStart, _mainSegmentTextEnd, _mainSegmentTextSize *)
Definition ex_settings_single_makerom : settings :=
  Settings "build" Makerom (Some 2147516416%N) (Some "out/game.d") (Some "out/game.elf") (Some "include/syms.h")
           "char" true [".mdebug"] [".symtab"; ".strtab"] [".reginfo"; ".got"] true true
           None None
           [".text"; ".data"; ".sdata"] [".bss"] None None None None None [] [] true (Some 0%N) [].

Definition dsw_clash_makerom_doc : document :=
  Document ex_settings_single_makerom [] [dsw_segment [".text"; "text"]] None [] [] [].

(* the two sections alone are fine under Makerom *)
Definition dsw_makerom_doc : document :=
  Document ex_settings_single_makerom [] [dsw_segment [".text"; ".data"]] None [] [] [].

(* a user assignment named like the START symbol of a section *)
Definition dsw_user_start_doc : document :=
  Document ex_settings_single [] [ds_segment] None
    [SymbolAssignment "main_DATA_START" "0x1" false false no_conds] [] [].

(* a user assignment called _gp while slinky defines _gp itself (hard-coded value and gp_info): not
   accepted by the condition, although doc_single_wf does not look at _gp *)
Definition dsw_user_gp_doc : document :=
  Document ex_settings_single [] [ds_segment] None
    [SymbolAssignment "_gp" "0x1" false false no_conds] [] [].

(* a section called like an allow-list entry *)
Definition dsw_allow_doc : document :=
  Document ex_settings_single [] [dsw_segment [".text"; ".mdebug"]] None [] [] [].

(* the linker offset of ".rodata" is visited twice through the sub-group of ".text" (subgroup_segment of
   Spec/DocWf.v): a repetition among the named symbols that doc_single_wf does not look at *)
Definition dsw_subgroup_doc : document :=
  Document ex_settings_single [] [subgroup_segment] None [] [] [].
