(* C19Grammar - syntactic well-formedness of the generated scripts against an explicit grammar of the
   linker-script subset that slinky emits: declarative definitions only.

   Three layers.

   1. AST level ([wf_stmt], [wf_script]): what every field of a statement of Model/Script.v must look
      like for its rendering to be a statement of the grammar, and at which nesting level (top level,
      inside SECTIONS, inside an output section) each statement form may stand.

   2. TEXT level ([tokens], [classify], [wf_lines]): a reader of the rendered LINES that knows nothing
      of the AST.  A line is cut into tokens (words, the punctuation ( ) { } ; : , = and "..." strings),
      the token sequence must have one of the shapes of the grammar below, and the sequence of lines
      must nest: a block header is followed by a lone "{", blocks close with a lone "}", SECTIONS only
      at top level, output sections only inside SECTIONS, input-section statements only inside an
      output section.  Proofs/C19Grammar.v shows [wf_script l -> wf_lines (render l)].

   3. DOCUMENT level ([doc_names_valid]): the hypothesis "the names of the document are valid linker
      identifiers", computed from the document and the run-time settings.

   The character classes (all ASCII):
     ident_char   [A-Za-z0-9_.$]              symbols, segment / class / section-list names
     sect_char    ident_char and '-'          section patterns of the allow / deny lists, sub-groups,
                                              section_order ('.note.gnu.build-id' has a hyphen)
     glob_char    sect_char and '*' '?'       what stands between ( ) of an input-section statement
     path_char    ident_char and / - + ~      file paths: a white list, chosen inside what the lexers of
                                              GNU ld and of LLVM lld both take as one unquoted file-name
                                              token (each takes more); none of white space ( ) { } ; , :
                                              = " * ? is in it
     file_char    path_char and '*' '?'       the archive member of path:member, the "*" of /DISCARD/
     hex_char     [0-9A-Fa-f]
   A NAME is non-empty, made of its class and does not start with a digit.  A SYMBOL is an ident NAME
   other than "." (the location counter, accepted only as the target of an assignment inside
   SECTIONS).  Keywords of the linker-script language (a symbol called ALIGN or SECTIONS) are NOT
   excluded: that is outside this grammar.

   Numbers are rendered by the model as 0x + hexadecimal digits (decimal digits for SUBALIGN); the text
   level checks it where the grammar wants a number (FILL, SUBALIGN).

   User-supplied expression text (values of symbol assignments, assert checks, fixed_symbol) is opaque:
   the class [safe_text] asks for at least one visible character, balanced parentheses, none of
   ; { } " or a line break, and no comment opener "/*" ([safe_addr], for fixed_symbol: no '=' either).
   At text level such a text is a "soup": any tokens with balanced parentheses and without ; { }
   strings or "/*".  That it is an EXPRESSION of the linker is not stated.  The message of an ASSERT
   has no double quote and no line break; the text of a comment no '*', double quote or line break.

   Every line is one line: a line feed or carriage return outside a string makes the token TBad, which
   no shape accepts. *)
From Slinky Require Import Model.Types Model.Generated Model.Runtime Model.Style Model.Script Model.Writer.
Local Open Scope string_scope.

(* ====================================================================== *)
(* 1. characters and names                                                 *)
(* ====================================================================== *)

Definition code (c : ascii) : nat := nat_of_ascii c.
Definition between (lo hi : nat) (c : ascii) : bool := Nat.leb lo (code c) && Nat.leb (code c) hi.

Definition is_digit (c : ascii) : bool := between 48 57 c.
Definition is_upper (c : ascii) : bool := between 65 90 c.
Definition is_lower (c : ascii) : bool := between 97 122 c.

Definition ident_char (c : ascii) : bool :=
  is_upper c || is_lower c || is_digit c ||
  Ascii.eqb c "_"%char || Ascii.eqb c "."%char || Ascii.eqb c "$"%char.

Definition sect_char (c : ascii) : bool := ident_char c || Ascii.eqb c "-"%char.

Definition glob_char (c : ascii) : bool := sect_char c || Ascii.eqb c "*"%char || Ascii.eqb c "?"%char.

Definition path_char (c : ascii) : bool :=
  ident_char c || Ascii.eqb c "/"%char || Ascii.eqb c "-"%char || Ascii.eqb c "+"%char ||
  Ascii.eqb c "~"%char.

Definition file_char (c : ascii) : bool := path_char c || Ascii.eqb c "*"%char || Ascii.eqb c "?"%char.

Definition hex_char (c : ascii) : bool := is_digit c || between 65 70 c || between 97 102 c.

(* space and tab; line feed and carriage return; the double quote *)
Definition is_blank (c : ascii) : bool := Ascii.eqb c " "%char || Nat.eqb (code c) 9.
Definition is_nl (c : ascii) : bool := Nat.eqb (code c) 10 || Nat.eqb (code c) 13.
Definition is_quote (c : ascii) : bool := Nat.eqb (code c) 34.

(* the punctuation that is a token of its own *)
Definition is_punct (c : ascii) : bool :=
  Ascii.eqb c "("%char || Ascii.eqb c ")"%char || Ascii.eqb c "{"%char || Ascii.eqb c "}"%char ||
  Ascii.eqb c ";"%char || Ascii.eqb c ":"%char || Ascii.eqb c ","%char || Ascii.eqb c "="%char.

(* what a word is made of: anything else *)
Definition word_char (c : ascii) : bool := negb (is_blank c || is_nl c || is_quote c || is_punct c).

Fixpoint str_all (P : ascii -> bool) (s : string) : bool :=
  match s with
  | EmptyString => true
  | String c r => P c && str_all P r
  end.

(* a NAME over the class [P]: non-empty, made of [P], not starting with a digit *)
Definition name_of (P : ascii -> bool) (s : string) : bool :=
  match s with
  | EmptyString => false
  | String c r => P c && negb (is_digit c) && str_all P r
  end.

Definition is_dot (s : string) : bool := String.eqb s ".".

Definition is_ident (s : string) : bool := name_of ident_char s.
Definition is_symbol (s : string) : bool := is_ident s && negb (is_dot s).
Definition is_secpat (s : string) : bool := name_of sect_char s && negb (is_dot s).
Definition is_glob (s : string) : bool := name_of glob_char s.
Definition is_path (s : string) : bool := negb (is_empty s) && str_all path_char s.
Definition is_filepat (s : string) : bool := negb (is_empty s) && str_all file_char s.

Definition is_hexnum (s : string) : bool :=
  match s with
  | String c1 (String c2 r) =>
      Ascii.eqb c1 "0"%char && Ascii.eqb c2 "x"%char && negb (is_empty r) && str_all hex_char r
  | _ => false
  end.

Definition is_decnum (s : string) : bool := negb (is_empty s) && str_all is_digit s.

(* ---------- opaque user text ---------- *)

(* the depth of parentheses after [s], starting at [d]; [None] when one closes that was not opened *)
Fixpoint paren_bal (d : nat) (s : string) : option nat :=
  match s with
  | EmptyString => Some d
  | String c r =>
      if Ascii.eqb c "("%char then paren_bal (S d) r
      else if Ascii.eqb c ")"%char then match d with O => None | S d' => paren_bal d' r end
      else paren_bal d r
  end.

(* no "/*" *)
Fixpoint no_comment_open (s : string) : bool :=
  match s with
  | EmptyString => true
  | String c r =>
      match r with
      | String c2 _ => negb (Ascii.eqb c "/"%char && Ascii.eqb c2 "*"%char) && no_comment_open r
      | EmptyString => true
      end
  end.

Fixpoint has_visible (s : string) : bool :=
  match s with
  | EmptyString => false
  | String c r => negb (is_blank c) || has_visible r
  end.

Definition raw_char (c : ascii) : bool :=
  negb (Ascii.eqb c ";"%char || Ascii.eqb c "{"%char || Ascii.eqb c "}"%char || is_quote c || is_nl c).

Definition safe_text (s : string) : bool :=
  has_visible s && str_all raw_char s && no_comment_open s &&
  match paren_bal 0 s with Some O => true | _ => false end.

(* the address of an output-section header: no '=' either (the header is not an assignment) *)
Definition safe_addr (s : string) : bool :=
  safe_text s && str_all (fun c => negb (Ascii.eqb c "="%char)) s.

(* the message of an ASSERT, printed between double quotes *)
Definition msg_ok (s : string) : bool := str_all (fun c => negb (is_quote c || is_nl c)) s.

(* the text of a comment, printed between "/* " and " */" *)
Definition comment_ok (s : string) : bool :=
  str_all (fun c => negb (Ascii.eqb c "*"%char || is_quote c || is_nl c)) s.

(* ====================================================================== *)
(* 2. AST level                                                            *)
(* ====================================================================== *)

Inductive level := LTop | LSec | LOut.

Definition is_top (lv : level) : bool := match lv with LTop => true | _ => false end.
Definition is_sec (lv : level) : bool := match lv with LSec => true | _ => false end.
Definition is_out (lv : level) : bool := match lv with LOut => true | _ => false end.

(* the target of an assignment: a symbol or, inside SECTIONS, the location counter *)
Definition is_lhs_at (lv : level) (s : string) : bool := is_symbol s || (is_dot s && negb (is_top lv)).

Definition opt_all {A} (P : A -> bool) (o : option A) : bool :=
  match o with Some x => P x | None => true end.

Definition wf_expr (e : expr) : bool :=
  match e with
  | EHex8 _ => true
  | ERaw s => safe_text s
  | ESym s => is_symbol s
  | EDot => true
  | EAddr sec => is_secpat sec
  | EAbsSub a b => is_symbol a && is_symbol b
  | ESub a b => is_symbol a && is_symbol b
  | EDotPlus _ => true
  end.

Definition wf_addr (e : expr) : bool :=
  match e with
  | ERaw s => safe_addr s
  | _ => wf_expr e
  end.

(* [wf_stmt lv s]: [s] may stand at level [lv] and its fields are of the right classes.
     top level          comment, blank, SECTIONS { }, ENTRY, EXTERN, ASSERT, assignments to symbols
     inside SECTIONS    comment, blank, assignments (also to "."), output sections, the one-line output
                        sections of the allow list, /DISCARD/
     inside an output   comment, blank, assignments (also to "."), FILL, input-section statements
     section
   PROVIDE / HIDDEN / PROVIDE_HIDDEN assign a symbol, never ".".  A NOLOAD output section has no address
   (slinky never gives one; "name addr (NOLOAD)" is ambiguous for the linkers). *)
Fixpoint wf_stmt (lv : level) (s : stmt) : bool :=
  match s with
  | SComment t => comment_ok t
  | SBlank => true
  | SAssign p h _ sym e => (if p || h then is_symbol sym else is_lhs_at lv sym) && wf_expr e
  | SAlign sym _ => is_lhs_at lv sym
  | SMaxSelf sym other => is_symbol sym && is_symbol other
  | SRomAdd sec => is_secpat sec
  | SDotAdd _ => negb (is_top lv)
  | SFill _ => is_out lv
  | SInput _ path member sect _ => is_out lv && is_path path && opt_all is_filepat member && is_secpat sect
  | SOutSec name addr at_ noload _ body =>
      is_sec lv && is_secpat name && opt_all wf_addr addr &&
      (if noload then negb (is_some addr) else true) && opt_all is_symbol at_ &&
      forallb (wf_stmt LOut) body
  | SSingleEntry sect => is_sec lv && is_secpat sect
  | SDiscard pats _ => is_sec lv && forallb is_secpat pats
  | SSections body => is_top lv && forallb (wf_stmt LSec) body
  | SEntry e => is_top lv && is_symbol e
  | SExtern n => is_top lv && is_symbol n
  | SAssert c m => is_top lv && safe_text c && msg_ok m
  end.

Definition wf_script (l : list stmt) : bool := forallb (wf_stmt LTop) l.

(* ====================================================================== *)
(* 3. TEXT level: tokens                                                   *)
(* ====================================================================== *)

Inductive token :=
| TW (w : string)        (* a word: a maximal run of word_char *)
| TP (c : ascii)         (* one punctuation character *)
| TS (s : string)        (* "..." : the text between the quotes *)
| TBad.                  (* a line break outside a string, or a string that is not closed *)

Inductive tstate :=
| InWord (cur : string)  (* the word being read, "" between tokens *)
| InStr (acc : string).  (* the string being read *)

Definition flush (cur : string) : list token :=
  match cur with EmptyString => [] | _ => [TW cur] end.

Fixpoint tok (st : tstate) (s : string) : list token :=
  match s with
  | EmptyString => match st with InWord cur => flush cur | InStr _ => [TBad] end
  | String c r =>
      match st with
      | InStr acc =>
          if is_quote c then TS acc :: tok (InWord "") r
          else tok (InStr (acc ++ String c "")) r
      | InWord cur =>
          if is_quote c then (flush cur ++ tok (InStr "") r)%list
          else if is_nl c then [TBad]
          else if is_blank c then (flush cur ++ tok (InWord "") r)%list
          else if is_punct c then (flush cur ++ TP c :: tok (InWord "") r)%list
          else tok (InWord (cur ++ String c "")) r
      end
  end.

Definition tokens (line : string) : list token := tok (InWord "") line.

Definition tok_eqb (a b : token) : bool :=
  match a, b with
  | TW x, TW y => String.eqb x y
  | TP x, TP y => Ascii.eqb x y
  | TS x, TS y => String.eqb x y
  | TBad, TBad => true
  | _, _ => false
  end.

Fixpoint toks_eqb (a b : list token) : bool :=
  match a, b with
  | [], [] => true
  | x :: a', y :: b' => tok_eqb x y && toks_eqb a' b'
  | _, _ => false
  end.

(* ---------- soup: opaque balanced token sequences ---------- *)

(* a token of a soup; the parentheses are counted by [soup]; [eq]: whether '=' is allowed *)
Definition soup_tok (eq : bool) (t : token) : bool :=
  match t with
  | TW w => no_comment_open w
  | TP c => negb (Ascii.eqb c ";"%char || Ascii.eqb c "{"%char || Ascii.eqb c "}"%char) &&
            (eq || negb (Ascii.eqb c "="%char))
  | _ => false
  end.

(* [soup eq closing d ne l]: [l] is a soup (depth of parentheses [d] so far, [ne]: something was
   already read) followed by tokens that [closing] accepts, up to the end of the line *)
Fixpoint soup (eq : bool) (closing : list token -> bool) (d : nat) (ne : bool) (l : list token) : bool :=
  if Nat.eqb d 0 && ne && closing l then true else
  match l with
  | [] => false
  | t :: r =>
      soup_tok eq t &&
      match t with
      | TP c =>
          if Ascii.eqb c "("%char then soup eq closing (S d) true r
          else if Ascii.eqb c ")"%char then match d with O => false | S d' => soup eq closing d' true r end
          else soup eq closing d true r
      | _ => soup eq closing d true r
      end
  end.

(* ";" *)
Definition cl_semi (l : list token) : bool := toks_eqb l [TP ";"%char].
(* ");" *)
Definition cl_paren_semi (l : list token) : bool := toks_eqb l [TP ")"%char; TP ";"%char].
(* , "message"); *)
Definition cl_assert (l : list token) : bool :=
  match l with
  | [TP c1; TS m; TP c2; TP c3] =>
      Ascii.eqb c1 ","%char && msg_ok m && Ascii.eqb c2 ")"%char && Ascii.eqb c3 ";"%char
  | _ => false
  end.

(* ":" then optionally AT(symbol) then optionally SUBALIGN(decimal) *)
Definition at_toks (s : string) : list token := [TW "AT"; TP "("%char; TW s; TP ")"%char].
Definition subalign_toks (n : string) : list token := [TW "SUBALIGN"; TP "("%char; TW n; TP ")"%char].

Definition cl_header (l : list token) : bool :=
  match l with
  | [TP c] => Ascii.eqb c ":"%char
  | [TP c; _; _; TW a; _] =>
      Ascii.eqb c ":"%char &&
      ((is_symbol a && toks_eqb l (TP ":"%char :: at_toks a)) ||
       (is_decnum a && toks_eqb l (TP ":"%char :: subalign_toks a)))
  | [TP c; _; _; TW a; _; _; _; TW n; _] =>
      Ascii.eqb c ":"%char && is_symbol a && is_decnum n &&
      toks_eqb l (TP ":"%char :: at_toks a ++ subalign_toks n)%list
  | _ => false
  end.

(* ---------- the shapes of a line ---------- *)

(* block headers *)
Definition header_ok (lv : level) (l : list token) : bool :=
  match lv with
  | LTop => toks_eqb l [TW "SECTIONS"]
  | LSec =>
      toks_eqb l [TW "/DISCARD/"; TP ":"%char] ||
      match l with
      | TW name :: rest => is_secpat name && soup false cl_header 0 true rest
      | _ => false
      end
  | LOut => false
  end.

(* sym = soup ;      sym += soup ;       ("+=" reads as the word "+" and the punctuation "=") *)
Definition assign_ok (lv : level) (l : list token) : bool :=
  match l with
  | TW w :: TP c :: rest => is_lhs_at lv w && Ascii.eqb c "="%char && soup true cl_semi 0 false rest
  | TW w :: TW op :: TP c :: rest =>
      is_lhs_at lv w && String.eqb op "+" && Ascii.eqb c "="%char && soup true cl_semi 0 false rest
  | _ => false
  end.

(* PROVIDE(sym = soup);   HIDDEN(sym = soup);   PROVIDE_HIDDEN(sym = soup); *)
Definition provide_ok (l : list token) : bool :=
  match l with
  | TW k :: TP c1 :: TW w :: TP c2 :: rest =>
      (String.eqb k "PROVIDE" || String.eqb k "HIDDEN" || String.eqb k "PROVIDE_HIDDEN") &&
      Ascii.eqb c1 "("%char && is_symbol w && Ascii.eqb c2 "="%char &&
      soup true cl_paren_semi 0 false rest
  | _ => false
  end.

(* ENTRY(sym);   EXTERN(sym); *)
Definition call_sym_ok (l : list token) : bool :=
  match l with
  | [TW k; _; TW s; _; _] =>
      (String.eqb k "ENTRY" || String.eqb k "EXTERN") && is_symbol s &&
      toks_eqb l [TW k; TP "("%char; TW s; TP ")"%char; TP ";"%char]
  | _ => false
  end.

(* ASSERT((soup), "message"); *)
Definition assert_ok (l : list token) : bool :=
  match l with
  | TW k :: TP c1 :: TP c2 :: rest =>
      String.eqb k "ASSERT" && Ascii.eqb c1 "("%char && Ascii.eqb c2 "("%char &&
      soup true cl_assert 1 false rest
  | _ => false
  end.

(* FILL(0xHEX); *)
Definition fill_ok (l : list token) : bool :=
  match l with
  | [_; _; TW n; _; _] => is_hexnum n && toks_eqb l [TW "FILL"; TP "("%char; TW n; TP ")"%char; TP ";"%char]
  | _ => false
  end.

(* file(pattern);   file:member(pattern);   and the same inside KEEP( ) *)
Definition input_toks (keep : bool) (file : string) (member : option string) (pat : string) : list token :=
  ((if keep then [TW "KEEP"; TP "("%char] else []) ++
   [TW file] ++
   (match member with Some m => [TP ":"%char; TW m] | None => [] end) ++
   [TP "("%char; TW pat; TP ")"%char] ++
   (if keep then [TP ")"%char] else []) ++ [TP ";"%char])%list.

Definition input_ok (l : list token) : bool :=
  match l with
  | [TW f; _; TW p; _; _] => is_filepat f && is_glob p && toks_eqb l (input_toks false f None p)
  | [TW f; _; TW m; _; TW p; _; _] =>
      is_filepat f && is_filepat m && is_glob p && toks_eqb l (input_toks false f (Some m) p)
  | [_; _; TW f; _; TW p; _; _; _] => is_filepat f && is_glob p && toks_eqb l (input_toks true f None p)
  | [_; _; TW f; _; TW m; _; TW p; _; _; _] =>
      is_filepat f && is_filepat m && is_glob p && toks_eqb l (input_toks true f (Some m) p)
  | _ => false
  end.

(* name 0 : { *(name); } *)
Definition single_ok (l : list token) : bool :=
  match l with
  | TW s :: _ =>
      is_secpat s &&
      toks_eqb l [TW s; TW "0"; TP ":"%char; TP "{"%char; TW "*"; TP "("%char; TW s; TP ")"%char;
                  TP ";"%char; TP "}"%char]
  | _ => false
  end.

(* a one-line statement at level [lv] *)
Definition stmt_ok (lv : level) (l : list token) : bool :=
  assign_ok lv l || provide_ok l ||
  match lv with
  | LTop => call_sym_ok l || assert_ok l
  | LSec => single_ok l
  | LOut => fill_ok l || input_ok l
  end.

(* leading spaces removed *)
Fixpoint strip_sp (s : string) : string :=
  match s with
  | String c r => if Ascii.eqb c " "%char then strip_sp r else s
  | EmptyString => s
  end.

(* [s] follows "/*": its first "*/" is its end, and it has no line break *)
Fixpoint comment_tail (s : string) : bool :=
  match s with
  | EmptyString => false
  | String c r =>
      if is_nl c then false
      else if Ascii.eqb c "*"%char then
             match r with
             | String c2 r2 => if Ascii.eqb c2 "/"%char then is_empty r2 else comment_tail r
             | EmptyString => false
             end
           else comment_tail r
  end.

(* one whole comment *)
Definition comment_line (s : string) : bool :=
  match s with
  | String c1 (String c2 r) => Ascii.eqb c1 "/"%char && Ascii.eqb c2 "*"%char && comment_tail r
  | _ => false
  end.

Inductive lkind := KBlank | KOpen | KClose | KHeader | KStmt.

(* the last token decides: ";" or "}" ends a statement, "*/" a comment, anything else a header *)
Definition classify (lv : level) (line : string) : option lkind :=
  let l := tokens line in
  match l with
  | [] => Some KBlank
  | _ =>
      if toks_eqb l [TP "{"%char] then Some KOpen
      else if toks_eqb l [TP "}"%char] then Some KClose
      else
        match last l TBad with
        | TP c =>
            if Ascii.eqb c ";"%char || Ascii.eqb c "}"%char
            then (if stmt_ok lv l then Some KStmt else None)
            else (if header_ok lv l then Some KHeader else None)
        | TW w =>
            if String.eqb w "*/" then (if comment_line (strip_sp line) then Some KBlank else None)
            else (if header_ok lv l then Some KHeader else None)
        | _ => None
        end
  end.

(* the reader's state: the nesting level and whether the previous line was a block header *)
Definition lstate := (level * bool)%type.

Definition step (st : lstate) (line : string) : option lstate :=
  let (lv, pend) := st in
  match classify lv line with
  | None => None
  | Some KOpen =>
      if pend then match lv with
                   | LTop => Some (LSec, false)
                   | LSec => Some (LOut, false)
                   | LOut => None
                   end
      else None
  | Some k =>
      if pend then None else
      match k with
      | KBlank | KStmt => Some (lv, false)
      | KHeader => Some (lv, true)
      | KClose => match lv with
                  | LTop => None
                  | LSec => Some (LTop, false)
                  | LOut => Some (LSec, false)
                  end
      | KOpen => None
      end
  end.

Fixpoint run (st : lstate) (lines : list string) : option lstate :=
  match lines with
  | [] => Some st
  | l :: r => match step st l with Some st' => run st' r | None => None end
  end.

(* every line has a shape of the grammar and the blocks nest *)
Definition wf_lines (lines : list string) : bool :=
  match run (LTop, false) lines with
  | Some (LTop, false) => true
  | _ => false
  end.

(* ====================================================================== *)
(* 4. DOCUMENT level                                                       *)
(* ====================================================================== *)

(* a path after the substitution of the custom options ({key}) is a path of the grammar; when the
   substitution fails so does the generation *)
Definition escaped_file_ok (rt : runtime) (p : string) : bool :=
  match escape_path rt p with Ok q => is_path q | Err _ => true end.

(* a directory may be empty *)
Definition escaped_dir_ok (rt : runtime) (p : string) : bool :=
  match escape_path rt p with Ok q => str_all path_char q | Err _ => true end.

(* one entry of a segment and the entries below it; nothing is asked of an entry that its conditions
   exclude *)
Fixpoint file_valid (rt : runtime) (f : file_info) : bool :=
  negb (should_emit rt (fi_conds f)) ||
  (forallb (fun kv => is_secpat (fst kv)) (fi_section_order f) &&
   match fi_kind f with
   | KObject => escaped_file_ok rt (fi_path f)
   | KArchive => escaped_file_ok rt (fi_path f) && is_filepat (fi_subfile f)
   | KPad => true
   | KLinkerOffset => is_ident (fi_linker_offset_name f)
   | KGroup => escaped_dir_ok rt (fi_dir f) && forallb (file_valid rt) (fi_files f)
   end).

(* the names of a segment: its own (a part of symbols: NAME_ROM_START, and of the output sections .NAME,
   .NAME.noload), its section lists (parts of symbols too: NAME_TEXT_START; also input patterns and, in
   single-segment mode, output section names), the members of its sub-groups (input patterns), the
   segment and the class it refers to (parts of symbols), its fixed_symbol (an address) *)
Definition segment_names_valid (seg : segment) : bool :=
  is_ident (sg_name seg) &&
  forallb is_symbol (alloc_sections seg) && forallb is_symbol (noload_sections seg) &&
  forallb (fun kv => forallb is_secpat (snd kv)) (sections_subgroups seg) &&
  opt_all safe_addr (sg_fixed_symbol seg) &&
  opt_all is_ident (sg_follows_segment seg) &&
  opt_all is_ident (sg_vram_class seg).

Definition segment_valid (rt : runtime) (seg : segment) : bool :=
  segment_names_valid seg && escaped_dir_ok rt (sg_dir seg) && forallb (file_valid rt) (sg_files seg).

Definition class_valid (c : vram_class) : bool :=
  is_ident (vc_name c) && opt_all safe_text (vc_fixed_symbol c) && forallb is_ident (vc_follows_classes c).

Definition settings_valid (rt : runtime) (st : settings) : bool :=
  escaped_dir_ok rt (base_path st) &&
  forallb is_secpat (sections_allowlist st) && forallb is_secpat (sections_allowlist_extra st) &&
  forallb is_secpat (sections_denylist st).

Definition tail_valid (rt : runtime) (d : document) : bool :=
  opt_all is_symbol (doc_entry d) &&
  forallb (fun a => negb (should_emit rt (sa_conds a)) || (is_symbol (sa_name a) && safe_text (sa_value a)))
          (doc_symbol_assignments d) &&
  forallb (fun r => negb (should_emit rt (rq_conds r)) || is_symbol (rq_name r)) (doc_required_symbols d) &&
  forallb (fun a => negb (should_emit rt (ae_conds a)) ||
                    (safe_text (ae_check a) && msg_ok (ae_error_message a))) (doc_asserts d).

(* [considered seg]: the segment is written *)
Definition doc_names_valid_for (considered : segment -> bool) (d : document) (rt : runtime) : bool :=
  settings_valid rt (doc_settings d) &&
  forallb class_valid (doc_vram_classes d) &&
  forallb (fun seg => negb (considered seg) || segment_valid rt seg) (doc_segments d) &&
  tail_valid rt d.

(* gen_normal: in single-segment mode the conditions of the segment are not consulted *)
Definition doc_names_valid (d : document) (rt : runtime) : bool :=
  doc_names_valid_for
    (fun seg => single_segment_mode (doc_settings d) || should_emit rt (sg_conds seg)) d rt.

(* gen_partial: moreover the object that stands for a segment in the main script,
   <partial_build_segments_folder>/<segment>.o, is a path of the grammar *)
Definition partial_object_ok (d : document) (rt : runtime) (seg : segment) : bool :=
  match partial_build_segments_folder (doc_settings d) with
  | Some folder => escaped_file_ok rt (push folder (sg_name seg ++ ".o"))
  | None => true
  end.

Definition doc_names_valid_partial (d : document) (rt : runtime) : bool :=
  doc_names_valid_for (fun seg => should_emit rt (sg_conds seg)) d rt &&
  forallb (fun seg => negb (should_emit rt (sg_conds seg)) || partial_object_ok d rt seg) (doc_segments d).

(* ====================================================================== *)
(* 5. sample data                                                          *)
(* ====================================================================== *)

(* the audit's rendering: balanced braces, nothing else right *)
Definition junk_lines : list string := [" :"; "{"; "     = )))(((;"; "}"; "ENTRY();"].

Definition bad_settings : settings :=
  Settings "build" Splat None None None None "char" true [] [] [] false false None None
           [".text"] [".bss"] None None None None None [] [] true None [].

Definition bad_segment (name : string) (sec : string) : segment :=
  Segment name [FileInfo "a.o" KObject "*" 0%N "" "" [] [] "" no_conds KAbsent]
          None None None None "src" None no_conds [sec] [".bss"] None
          None None None None [] [] true None [] KAbsent.

(* a segment called "a b"; a section called "x;y" *)
Definition bad_doc_space : document := Document bad_settings [] [bad_segment "a b" ".text"] None [] [] [].
Definition bad_doc_semi : document := Document bad_settings [] [bad_segment "boot" "x;y"] None [] [] [].
(* ... and a sound one of the same shape *)
Definition good_doc_small : document := Document bad_settings [] [bad_segment "boot" ".text"] None [] [] [].

Definition script_of (d : document) (rt : runtime) : list stmt :=
  match gen_normal d rt with Ok w => wo_script w | Err _ => [] end.

Definition rt_plain : runtime := Runtime [] true.

(* render is not injective on the AST (the AST records where a text comes from, the text does not),
   so a re-reading of the text cannot give the AST back; four pairs with the same rendering *)
Definition same_text_pairs : list (list stmt * list stmt) :=
  [([SAssign false false true "a" (ESym "b")], [SAssign false false false "a" (ERaw "b")]);
   ([SAlign "a" 16%N], [SAssign false false false "a" (ERaw "ALIGN(a, 0x10)")]);
   ([SAssign false false false "a" (EDotPlus 1%Z)], [SAssign false false false "a" (EDotPlus 4294967297%Z)]);
   ([SDiscard [".x"] false], [SOutSec "/DISCARD/" None None false None [SInput false "*" None ".x" false]])].
