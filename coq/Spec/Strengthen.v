(* Strengthen - declarative definitions for the strengthened statements of Properties/C14Exact.v,
   C06Equal.v (C13Modes.v and C09Known.v need none). *)
From Slinky Require Import Model.Types Model.Parse Model.Runtime Model.Style Model.Script Model.Writer.
From Slinky Require Import Spec.C01 Spec.C14 Spec.C15 Spec.C19.
Local Open Scope string_scope.

(* ====================================================================== *)
(* A. C14: the KEEP flag of a statement is the flag of ITS entry            *)
(* ====================================================================== *)

(* the input statement with fields [keep path member sect wild] is the statement that the leaf [g]
   (an included object / archive entry, placed under the directory [bg] accumulated from the groups above
   it: [leaves], Spec/C01.v) writes for section [sect]: the path is g's own escaped path under [bg], the
   member is g's, and the KEEP flag is the rule applied to g's keep_sections value and THIS section *)
Definition statement_of_leaf (rt : runtime) (seg : segment) (g : file_info) (bg : string)
           (keep : bool) (path : string) (member : option string) (sect : string) (wild : bool) : Prop :=
  exists p, escape_path rt (fi_path g) = Ok p /\
            path = display (push bg p) /\ member = member_of g /\ wild = wildcard_sections seg /\
            keep = keeps (fi_keep g) sect.

(* "the effective keep_sections is `true` or a list containing the section" *)
Definition keep_says (k : keep) (sect : string) : Prop :=
  k = KAll true \/ exists l, k = KWhich l /\ In sect l.

(* the conclusion of the old C14_keep_flag_tree for one statement, as it was stated *)
Definition old_keep_flag_shape (f : file_info) (s : stmt) : Prop :=
  exists g, below g f /\ objlike g /\
            exists path member k wild, s = SInput (keeps (fi_keep g) k) path member k wild.

(* the new conclusion for one statement *)
Definition exact_keep_flag_shape (rt : runtime) (seg : segment) (base : string) (f : file_info) (s : stmt)
  : Prop :=
  exists keep path member sect wild g bg chain,
    s = SInput keep path member sect wild /\
    In (g, bg, chain) (leaves rt base f) /\ statement_of_leaf rt seg g bg keep path member sect wild.

(* ---------- positions in the file tree, on both sides of the parser ---------- *)

(* the entry at position [pos] (child indices, from the entry itself downwards) *)
Fixpoint entry_at (f : file_info) (pos : list nat) : option file_info :=
  match pos with
  | [] => Some f
  | i :: r => match nth_error (fi_files f) i with Some c => entry_at c r | None => None end
  end.

(* the keep_sections values WRITTEN in the document on the entry at position [pos] of the serial entry
   [fs] and on the groups that enclose it, innermost first, followed by [above] (what is written on the
   segment, then on its vram class) *)
Fixpoint written_chain (fs : file_serial) (pos : list nat) (above : list keep) : option (list keep) :=
  let own := keep_of_skeep (fs_keep fs) in
  match pos with
  | [] => Some (own :: above)
  | i :: r =>
      match fs_kind fs, fs_files fs with
      | Value KGroup, Value l =>
          match nth_error l i with Some c => written_chain c r (own :: above) | None => None end
      | _, _ => None
      end
  end.

(* what is written above the entries of a segment: on the segment, then on its vram class *)
Definition written_above (sd : document_serial) (ss : segment_serial) : list keep :=
  [keep_of_skeep (ss_keep ss); class_keep_serial (serial_classes sd) (ss_vram_class ss)].

(* the entry [g] of the parsed segment [seg] sits where the serial document has an entry whose effective
   keep_sections - the nearest explicit value among the entry, its enclosing groups, the segment and the
   class ([nearest], Spec/C14.v; none: KAbsent, never kept) - is [fi_keep g] *)
Definition effective_keep_of (sd : document_serial) (ss : segment_serial) (seg : segment) (c0 g : file_info)
  : Prop :=
  exists j fs0 pos written,
    nth_error (sg_files seg) j = Some c0 /\ nth_error (serial_files ss) j = Some fs0 /\
    entry_at c0 pos = Some g /\
    written_chain fs0 pos (written_above sd ss) = Some written /\
    fi_keep g = nearest written.

(* the directory under which the entries of a segment are placed (as Proofs/C06More.v seg_base) *)
Definition segment_base (rt : runtime) (cfg : wcfg) (seg : segment) (base_path b : string) : Prop :=
  exists b0, escape_path rt base_path = Ok b0 /\
             (if reference_partial cfg then b = b0
              else exists d, escape_path rt (sg_dir seg) = Ok d /\ b = push b0 d).

(* the statement [SInput keep path member sect wild] of a script generated from the parsed document [d]
   (serial form [sd]) is the statement of a leaf of segment number [i], with that leaf's effective flag *)
Definition doc_statement_exact (sd : document_serial) (d : document) (rt : runtime) (cfg : wcfg)
           (seg : segment) (keep : bool) (path : string) (member : option string) (sect : string)
           (wild : bool) : Prop :=
  exists i ss b c0 g bg chain,
    nth_error (doc_segments d) i = Some seg /\ nth_error (serial_segments sd) i = Some ss /\
    segment_base rt cfg seg (base_path (doc_settings d)) b /\
    In c0 (sg_files seg) /\ In (g, bg, chain) (leaves rt b c0) /\
    statement_of_leaf rt seg g bg keep path member sect wild /\
    effective_keep_of sd ss seg c0 g.

(* ====================================================================== *)
(* C. C06: deleting excluded entries, both directions                       *)
(* ====================================================================== *)

(* walking the sub-group chain of entry [f] terminates without meeting a section twice: some rank
   decreases along every edge of the expansion (Spec/C19.v), for the two section lists the segment is
   written with.  Always true of a group (it consults no table) *)
Definition walk_acyclic (seg : segment) (f : file_info) : Prop :=
  exists rank, forall sections, chain_decreasing seg sections rank f.

(* ... for an entry and every entry below it *)
Definition walk_acyclic_deep (seg : segment) (f : file_info) : Prop :=
  exists rank, forall sections, chain_decreasing_deep seg sections rank f.

(* every entry of every segment, at any depth: "the sub-group maps of the document are acyclic" *)
Definition doc_acyclic (d : document) : Prop :=
  Forall (fun seg => Forall (walk_acyclic_deep seg) (sg_files seg)) (doc_segments d).

(* [l'] is [l] with any number of excluded entries deleted, at any depth, each deleted entry having an
   acyclic walk *)
Inductive prune_acyclic (rt : runtime) (seg : segment) : list file_info -> list file_info -> Prop :=
| pa_nil : prune_acyclic rt seg [] []
| pa_skip f l l' :
    should_emit rt (fi_conds f) = false -> walk_acyclic seg f ->
    prune_acyclic rt seg l l' -> prune_acyclic rt seg (f :: l) l'
| pa_keep f l l' : prune_acyclic rt seg l l' -> prune_acyclic rt seg (f :: l) (f :: l')
| pa_group f kids' l l' :
    fi_kind f = KGroup -> prune_acyclic rt seg (fi_files f) kids' -> prune_acyclic rt seg l l' ->
    prune_acyclic rt seg (f :: l)
      (FileInfo (fi_path f) (fi_kind f) (fi_subfile f) (fi_pad_amount f) (fi_section f)
                (fi_linker_offset_name f) (fi_section_order f) kids' (fi_dir f) (fi_conds f) (fi_keep f) :: l').

Definition seg_prune_acyclic (rt : runtime) (s1 s2 : segment) : Prop :=
  exists fl, prune_acyclic rt s1 (sg_files s1) fl /\ s2 = clone_with_new_files s1 fl.
