(* C13 - the symbols header: which names it declares, written declaratively. *)
From Slinky Require Import Model.Types Model.Runtime Model.Style Model.Script Model.Writer Model.Exports.
From Slinky Require Export Spec.C18.
Local Open Scope string_scope.

(* ---------- the symbols recorded by the script, in order ---------- *)

(* the names assigned through write_linker_symbol, at any depth, in script order *)
Fixpoint stmt_recorded (s : stmt) : list string :=
  match s with
  | SAssign _ _ true sym _ => [sym]
  | SOutSec _ _ _ _ _ body => flat_map stmt_recorded body
  | SSections body => flat_map stmt_recorded body
  | _ => []
  end.

Definition recorded_syms (l : list stmt) : list string := flat_map stmt_recorded l.

(* ---------- the text ---------- *)

Definition extern_line (st : settings) (sym : string) : string :=
  "extern " ++ symbols_header_type st ++ " " ++ sym ++
  (if symbols_header_as_array st then "[]" else "") ++ ";" ++ nl.

Definition header_spec (rt : runtime) (st : settings) (syms : list string) : string :=
  (if rt_emit_version_comment rt then "/* " ++ version_comment_text ++ " */" ++ nl ++ nl else "") ++
  "#ifndef HEADER_SYMBOLS_H" ++ nl ++ "#define HEADER_SYMBOLS_H" ++ nl ++ nl ++
  concat_all (map (extern_line st) syms) ++
  nl ++ "#endif" ++ nl.

(* ---------- the names slinky generates ---------- *)

(* for one segment: rom and vram symbols of the segment, vram symbols of its alloc / noload halves,
   and start / end / size of each of its section groups *)
Definition segment_level_names (sty : style) (seg : segment) : list string :=
  [segment_rom_start sty (sg_name seg); segment_rom_end sty (sg_name seg); segment_rom_size sty (sg_name seg);
   segment_vram_start sty (sg_name seg); segment_vram_end sty (sg_name seg);
   segment_vram_size sty (sg_name seg);
   segment_vram_start sty (kind_name seg false); segment_vram_end sty (kind_name seg false);
   segment_vram_size sty (kind_name seg false);
   segment_vram_start sty (kind_name seg true); segment_vram_end sty (kind_name seg true);
   segment_vram_size sty (kind_name seg true)].

Definition section_names (sty : style) (seg : segment) (section : string) : list string :=
  [segment_section_start sty (sg_name seg) section; segment_section_end sty (sg_name seg) section;
   segment_section_size sty (sg_name seg) section].

Definition segment_form (sty : style) (seg : segment) (sym : string) : Prop :=
  In sym (segment_level_names sty seg) \/
  exists section, In section (alloc_sections seg ++ noload_sections seg)%list /\
                  In sym (section_names sty seg section).

Definition class_form (sty : style) (cn : string) (sym : string) : Prop :=
  In sym [vram_class_start sty cn; vram_class_end sty cn; vram_class_size sty cn].

(* the linker offset of an included linker-offset file of the segment (inside included groups) *)
Definition offset_form (rt : runtime) (sty : style) (seg : segment) (sym : string) : Prop :=
  exists name, In name (segment_offset_names rt seg) /\ sym = linker_offset sty name.

(* a name generated for these segments and classes: a symbol or a linker offset of one of the
   segments, or a symbol of a declared vram class *)
Definition generated_form (rt : runtime) (sty : style) (segs : list segment) (classes : list vram_class)
           (sym : string) : Prop :=
  (exists seg, In seg segs /\ (segment_form sty seg sym \/ offset_form rt sty seg sym)) \/
  (exists c, In c classes /\ class_form sty (vc_name c) sym).

(* the segments that are emitted *)
Definition included_segments (rt : runtime) (d : document) : list segment :=
  filter (fun seg => should_emit rt (sg_conds seg)) (doc_segments d).
