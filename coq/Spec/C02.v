(* C02 - script order mirrors document order.  The description of what an entry contributes is
   shared with C01 (Spec/C01.v); here: the expected sequence of output sections. *)
From Slinky Require Import Model.Types Model.Runtime Model.Style Model.Script Model.Writer Model.LdSem.
From Slinky Require Export Spec.C01.
Local Open Scope string_scope.

(* the output sections of one segment in a multi-segment script: allocatable half, then noload half *)
Definition segment_outsecs (seg : segment) : list string :=
  ["." ++ sg_name seg; "." ++ sg_name seg ++ ".noload"].

(* the segments that are emitted, in document order *)
Definition emitted_segments (rt : runtime) (segs : list segment) : list segment :=
  filter (fun seg => should_emit rt (sg_conds seg)) segs.

(* one group of a half: start symbols, the files, end symbols, and possibly a blank line *)
Definition is_group_of (rt : runtime) (st : settings) (cfg : wcfg) (seg : segment) (sections : list string)
           (section : string) (chunk : list stmt) : Prop :=
  exists files ws1 ws2 sep,
    emit_section rt (linker_symbols_style st) cfg seg sections (base_path st) section ws1 = Ok (files, ws2) /\
    (sep = [] \/ sep = [SBlank]) /\
    chunk = (section_symbol_start rt (linker_symbols_style st) cfg seg section ++ files ++
             section_symbol_end (linker_symbols_style st) cfg seg section ++ sep)%list.
