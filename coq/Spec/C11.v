(* C11 - partial linking against one-step linking (script level), written declaratively. *)
From Slinky Require Import Model.Types Model.Runtime Model.Style Model.Script Model.Writer Model.Exports.
From Slinky Require Export Spec.C18.
Local Open Scope string_scope.

(* the file statements of one section group of a segment, as the ordinary script has them: they do
   not depend on the writer's state (see C11_statements_state_independent) *)
Definition section_stmts (rt : runtime) (st : settings) (seg : segment) (sections : list string)
           (section : string) : res (list stmt) :=
  do o <- emit_section rt (linker_symbols_style st) cfg_normal seg sections (base_path st) section ws0;
  Ok (fst o).

(* [files] lists, for each section group of [sections], its file statements *)
Definition FilesOf (rt : runtime) (st : settings) (seg : segment) (sections : list string)
           (rest : list string) (files : list (list stmt)) : Prop :=
  Forall2 (fun section F => section_stmts rt st seg sections section = Ok F) rest files.

(* the body of an output section of the ordinary script: per section group the start symbols, the
   files, the end symbols; one blank line between groups *)
Fixpoint multi_body (rt : runtime) (st : settings) (cfg : wcfg) (seg : segment) (rest : list string)
         (files : list (list stmt)) : list stmt :=
  match rest, files with
  | section :: rest', F :: files' =>
      (section_symbol_start rt (linker_symbols_style st) cfg seg section ++ F ++
       section_symbol_end (linker_symbols_style st) cfg seg section ++
       (match rest' with [] => [] | _ => [SBlank] end) ++ multi_body rt st cfg seg rest' files')%list
  | _, _ => []
  end.

(* the output sections of a partial sub-script: one per section group, holding the fill and the files *)
Fixpoint sub_body (seg : segment) (noload : bool) (rest : list string) (files : list (list stmt))
  : list stmt :=
  match rest, files with
  | section :: rest', F :: files' =>
      ([SOutSec section None None noload (subalign seg) (opt_fill seg ++ F)] ++
       (match rest' with [] => [] | _ => [SBlank] end) ++ sub_body seg noload rest' files')%list
  | _, _ => []
  end.

(* one half (alloc or noload) of a segment in the ordinary script / in the main partial script *)
Definition half_segment (rt : runtime) (st : settings) (cfg : wcfg) (seg : segment) (sections : list string)
           (noload : bool) (files : list (list stmt)) : list stmt :=
  (sections_kind_start (linker_symbols_style st) cfg seg noload ++
   [SOutSec ("." ++ sg_name seg ++ (if noload then ".noload" else ""))
            (if noload then None else segment_addr (linker_symbols_style st) seg)
            (if noload then None else Some (segment_rom_start (linker_symbols_style st) (sg_name seg)))
            noload (subalign seg)
            (opt_fill seg ++ multi_body rt st cfg seg sections files)] ++
   sections_kind_end (linker_symbols_style st) cfg seg noload)%list.

(* the path of a segment's partial object as the main script shows it *)
Definition partial_object (folder : string) (seg : segment) : string := push folder (sg_name seg ++ ".o").

(* the single statement that places a segment's partial object in one section group of the main
   script: never KEEP, no archive member *)
Definition partial_input (b0 pe : string) (seg : segment) (section : string) : list stmt :=
  [SInput false (display (push b0 pe)) None section (wildcard_sections seg)].

(* a sub-script is the single-segment script of an emitted segment of the document, generated
   without section / kind symbols from a fresh writer *)
Definition SubOf (d : document) (rt : runtime) (sub : string * writer_out) : Prop :=
  exists seg stmts wsub,
    In seg (doc_segments d) /\ should_emit rt (sg_conds seg) = true /\ fst sub = sg_name seg /\
    add_single_segment rt (doc_settings d) cfg_sub_partial (doc_vram_classes d) seg ws0 = Ok (stmts, wsub) /\
    snd sub = WriterOut (version_stmts rt ++ stmts)%list (ws_paths wsub).

(* [path] is what the main script shows for the partial object of an emitted segment: the escaped
   base path followed by the escaped <partial_build_segments_folder>/<segment>.o *)
Definition IsPartialObject (rt : runtime) (st : settings) (folder : string) (segs : list segment)
           (path : string) : Prop :=
  exists seg b0 pe, In seg segs /\ should_emit rt (sg_conds seg) = true /\
                    escape_path rt (base_path st) = Ok b0 /\
                    escape_path rt (partial_object folder seg) = Ok pe /\ path = display (push b0 pe).
