(* C13Doc - the symbols header, from the DOCUMENT alone: declarative definitions.

   [doc_header_symbols d rt] lists, by recursion over the document, the names that the script of
   gen_normal (multi-segment mode) assigns through write_linker_symbol, IN SCRIPT ORDER and with
   multiplicity; the header declares the first occurrence of each (Properties/C13Doc.v).  The list is
   made of the pieces of Spec/DocWf.v:

     for every segment whose conditions hold, in document order:
       the start and end symbol of its vram class, when no earlier included segment named the class;
       [seg_symbols]: X_ROM_START, X_VRAM, then for the allocatable and for the noload half the kind
       symbol X_alloc_VRAM, for every section of the half X_SEC_START, the linker offsets of the
       files in the order emit_section_for_file visits them ([section_offsets]), X_SEC_END,
       X_SEC_SIZE, then X_alloc_VRAM_END, X_alloc_VRAM_SIZE; then X_VRAM_END, X_VRAM_SIZE, X_ROM_END,
       X_ROM_SIZE;
     the size symbol of every declared class that an included segment names, in declaration order.

   Not in the list: "__romPos" (its initialisation "__romPos = 0x0" is a plain assignment, not a
   write_linker_symbol), "_gp" (gp_info and the hard-coded value), "." and the user's own
   symbol_assignments. *)
From Slinky Require Import Model.Types Model.Runtime Model.Style Model.Script Model.Writer Model.Exports.
From Slinky Require Import Spec.C13 Spec.C04 Spec.DocLevel Spec.DocPartial Spec.DocSingle Spec.DocWf.
Local Open Scope string_scope.

(* ---------- the segments, with the class symbols at first use ---------- *)

(* [segsym seg] are the names one included segment records; [seen] are the classes whose start and end
   symbols are already written *)
Fixpoint segs_header_symbols (rt : runtime) (sty : style) (segsym : segment -> list string)
         (segs : list segment) (seen : list string) : list string :=
  match segs with
  | [] => []
  | seg :: r =>
      if should_emit rt (sg_conds seg) then
        match sg_vram_class seg with
        | Some cn =>
            if mem_str cn seen
            then (segsym seg ++ segs_header_symbols rt sty segsym r seen)%list
            else ([vram_class_start sty cn; vram_class_end sty cn] ++ segsym seg ++
                  segs_header_symbols rt sty segsym r (cn :: seen))%list
        | None => (segsym seg ++ segs_header_symbols rt sty segsym r seen)%list
        end
      else segs_header_symbols rt sty segsym r seen
  end.

(* the segments, then the class sizes *)
Definition header_symbols_with (segsym : style -> segment -> list string) (d : document) (rt : runtime)
  : list string :=
  let stg := doc_settings d in
  let sty := linker_symbols_style stg in
  (segs_header_symbols rt sty (segsym sty) (doc_segments d) [] ++
   class_size_symbols sty (doc_vram_classes d) (used_classes rt (doc_segments d)))%list.

(* ---------- the ordinary script, multi-segment mode ---------- *)

Definition doc_header_symbols (d : document) (rt : runtime) : list string :=
  header_symbols_with (seg_symbols rt) d rt.

(* ---------- the main script of partial linking ---------- *)

(* a segment of the main script holds one partial object: the same symbols without linker offsets *)
Definition section_symbols_main (sty : style) (seg : segment) (section : string) : list string :=
  [segment_section_start sty (sg_name seg) section; segment_section_end sty (sg_name seg) section;
   segment_section_size sty (sg_name seg) section].

Definition part_symbols_main (sty : style) (seg : segment) (noload : bool) : list string :=
  ([segment_vram_start sty (kind_name seg noload)] ++
   flat_map (section_symbols_main sty seg) (if noload then noload_sections seg else alloc_sections seg) ++
   [segment_vram_end sty (kind_name seg noload); segment_vram_size sty (kind_name seg noload)])%list.

Definition seg_symbols_main (sty : style) (seg : segment) : list string :=
  ([segment_rom_start sty (sg_name seg); segment_vram_start sty (sg_name seg)] ++
   part_symbols_main sty seg false ++ part_symbols_main sty seg true ++
   [segment_vram_end sty (sg_name seg); segment_vram_size sty (sg_name seg);
    segment_rom_end sty (sg_name seg); segment_rom_size sty (sg_name seg)])%list.

Definition doc_header_symbols_main (d : document) (rt : runtime) : list string :=
  header_symbols_with seg_symbols_main d rt.

(* ---------- the per-segment scripts of partial linking ---------- *)

(* cfg_sub_partial writes neither kind nor section symbols: only the linker offsets are recorded *)
Definition sub_header_symbols (d : document) (rt : runtime) (seg : segment) : list string :=
  seg_offsets rt (linker_symbols_style (doc_settings d)) seg.

(* ---------- single-segment mode ---------- *)

(* one segment, whatever its conditions (add_single_segment does not read them); no ROM / VRAM symbol
   of the segment itself and no class symbol (no class is ever marked as emitted): the two halves *)
Definition doc_header_symbols_single (d : document) (rt : runtime) : list string :=
  let sty := linker_symbols_style (doc_settings d) in
  match doc_segments d with
  | [seg] => (part_symbols rt sty seg false ++ part_symbols rt sty seg true)%list
  | _ => []
  end.

(* ---------- sample data ---------- *)

(* a user assignment called like a generated symbol: the name is declared, because slinky generated it *)
Definition shadow_doc : document :=
  Document ex_settings (doc_vram_classes dl_doc) (doc_segments dl_doc) None
           [SymbolAssignment "boot_ROM_START" "0x1000" false false no_conds;
            SymbolAssignment "mine" "1" false false no_conds] [] [].
