(* C01Listed - the bridge between the two halves of C01: "every such input section ends up inside its
   segment".  Declarative definitions.
   - the matching predicate of an input statement, spelled out in Prop (LdSem computes it as [sel]);
   - [claim]: the statements of a script that take input sections away from the universe (an input
     statement inside an output section, an allow-list entry (SSingleEntry), the /DISCARD/
     block), listed in execution order by [script_claims];
   - [first_claim]: the first of them that matches an input section - the one that gets it;
   - what the document lists: [listed], the claim written for a leaf of a segment's file list and a
     section it reaches. *)
From Slinky Require Import Model.Types Model.Runtime Model.Style Model.Script Model.Writer Model.LdSem.
From Slinky Require Import Spec.C18 Spec.C04 Spec.C09 Spec.C01 Spec.DocLevel Spec.C01Doc.
From Coq Require Import ZArith.
Local Open Scope string_scope.

(* ---------- which input sections an input statement selects ---------- *)

(* the member part of "path:member(sect)": an object statement takes sections of objects only, an
   archive statement those of the named member (a star: of any member) *)
Definition member_match (member : option string) (x : usec) : Prop :=
  match member, u_member x with
  | None, None => True
  | Some m, Some um => m = "*" \/ m = um
  | _, _ => False
  end.

(* the section part: the name itself, or - with the wildcard flag - any name that extends it *)
Definition name_match (sect : string) (wild : bool) (n : string) : Prop :=
  if wild then exists rest, n = sect ++ rest else n = sect.

(* [SInput _ path member sect wild] selects [x]; LdSem: [sel false path member sect wild x = true]
   (C01_input_matches_sel) *)
Definition input_matches (path : string) (member : option string) (sect : string) (wild : bool)
           (x : usec) : Prop :=
  u_path x = path /\ member_match member x /\ name_match sect wild (u_name x).

(* ---------- where an input section is ---------- *)

(* some placement of [st] carries the marker of [x] and the output section [outsec] *)
Definition placed_at (st : lstate) (x : usec) (outsec : string) : Prop :=
  exists p, In p (l_placed st) /\ pl_marker p = u_marker x /\ pl_outsec p = outsec.

(* ---------- the statements that take input sections ---------- *)

Inductive claim :=
| CInput (outsec path : string) (member : option string) (sect : string) (wild : bool)
| CEntry (sect : string)
| CDiscard (pats : list string) (wild : bool).

(* exactly the tests of LdSem.exec_sec_stmt / exec_top_stmt *)
Definition claim_matches (c : claim) (x : usec) : bool :=
  match c with
  | CInput _ path member sect wild => sel false path member sect wild x
  | CEntry sect => sel true "" None sect false x
  | CDiscard pats wild => existsb (fun p => name_matches p false (u_name x)) pats || wild
  end.

(* the output section that receives what the claim takes; None: it is discarded *)
Definition claim_outsec (c : claim) : option string :=
  match c with
  | CInput o _ _ _ _ => Some o
  | CEntry s => Some s
  | CDiscard _ _ => None
  end.

Definition body_claims (outsec : string) (body : list stmt) : list claim :=
  flat_map (fun s => match s with
                     | SInput _ path member sect wild => [CInput outsec path member sect wild]
                     | _ => []
                     end) body.

Definition top_claims (s : stmt) : list claim :=
  match s with
  | SOutSec name _ _ _ _ body => body_claims name body
  | SSingleEntry sect => [CEntry sect]
  | SDiscard pats wild => [CDiscard pats wild]
  | _ => []
  end.

(* in execution order: the statements as LdSem runs them ([flat_stmts]: the body of SECTIONS in
   place), descending into the bodies of the output sections *)
Definition script_claims (script : list stmt) : list claim := flat_map top_claims (flat_stmts script).

(* the first claim that matches [x] *)
Definition first_claim (cs : list claim) (x : usec) : option claim := find (fun c => claim_matches c x) cs.

(* [c] took [x]: it is no longer waiting, and it is placed in the claim's output section / discarded *)
Definition captured (st' : lstate) (x : usec) (c : claim) : Prop :=
  match claim_outsec c with
  | Some o => placed_at st' x o
  | None => In (u_marker x) (l_discarded st')
  end /\ ~ In x (l_remaining st').

(* the output section of an input statement was not laid out: its address expression could not be
   evaluated, LdSem records LForwardRef and skips the body *)
Definition claim_failed (st' : lstate) (c : claim) : Prop :=
  match c with
  | CInput o _ _ _ _ => In (LForwardRef o) (l_errors st')
  | _ => False
  end.

(* the first claim of the script that matches [x], if any, puts it in an output section whose name
   satisfies [P] *)
Definition first_goes (script : list stmt) (x : usec) (P : string -> Prop) : Prop :=
  forall c, first_claim (script_claims script) x = Some c -> exists o, claim_outsec c = Some o /\ P o.

(* ---------- what the document lists ---------- *)

(* the two halves of a segment *)
Definition part_name (seg : segment) (noload : bool) : string :=
  if noload then noload_name seg else alloc_name seg.
Definition part_sections (seg : segment) (noload : bool) : list string :=
  if noload then noload_sections seg else alloc_sections seg.

Definition seg_outsec (seg : segment) (o : string) : Prop := o = alloc_name seg \/ o = noload_name seg.

(* the directory under which the entries of a segment are placed in the ordinary script: the escaped
   base_path followed by the escaped dir of the segment (Proofs/C06More.v: seg_base with cfg_normal) *)
Definition doc_base (rt : runtime) (d : document) (seg : segment) (b : string) : Prop :=
  exists b0 dd, escape_path rt (base_path (doc_settings d)) = Ok b0 /\
                escape_path rt (sg_dir seg) = Ok dd /\ b = push b0 dd.

(* the claim written in half [noload] of [seg] for the leaf [lf] (escaped path [p], under directory
   [bc]) and section [k] *)
Definition leaf_claim (seg : segment) (noload : bool) (lf : file_info) (bc p k : string) : claim :=
  CInput (part_name seg noload) (display (push bc p)) (member_of lf) k (wildcard_sections seg).

(* [lf] is a leaf of the file list of [seg] ([leaves], Spec/C01.v) and [k] a section it reaches from a
   configured section of half [noload] through the entries above it ([reach_via]) *)
Definition leaf_reaches (rt : runtime) (d : document) (seg : segment) (noload : bool)
           (lf : file_info) (bc p k : string) : Prop :=
  exists b c0 chain section,
    doc_base rt d seg b /\ In c0 (sg_files seg) /\ In (lf, bc, chain) (leaves rt b c0) /\
    In section (part_sections seg noload) /\
    reach_via cfg_normal seg (part_sections seg noload) chain section k /\
    escape_path rt (fi_path lf) = Ok p.

(* [c] is the claim of such a leaf and section *)
Definition listed (rt : runtime) (d : document) (seg : segment) (noload : bool) (c : claim) : Prop :=
  exists lf bc p k, leaf_reaches rt d seg noload lf bc p k /\ c = leaf_claim seg noload lf bc p k.

(* the claims of the tail of SECTIONS: one per allow-list entry, then the /DISCARD/ block *)
Definition tail_claims (stg : settings) : list claim :=
  (map CEntry (sections_allowlist stg) ++ map CEntry (sections_allowlist_extra stg) ++
   (if orb (discard_wildcard_section stg) (nonempty (sections_denylist stg))
    then [CDiscard (sections_denylist stg) (discard_wildcard_section stg)] else []))%list.

(* document-side condition for "the first statement that matches [x] is in an output section whose
   name satisfies [P]": every (segment, half, leaf, reached section) of the document whose statement
   would select [x] belongs to such an output section *)
Definition matching_leaves_in (rt : runtime) (d : document) (x : usec) (P : string -> Prop) : Prop :=
  forall s nl lf bc p k,
    In s (included rt (doc_segments d)) -> leaf_reaches rt d s nl lf bc p k ->
    input_matches (display (push bc p)) (member_of lf) k (wildcard_sections s) x ->
    P (part_name s nl).

(* simpler conditions.  The file of [x] is listed by [seg] only: *)
Definition path_only_in (rt : runtime) (d : document) (x : usec) (seg : segment) : Prop :=
  forall s nl lf bc p k,
    In s (included rt (doc_segments d)) -> leaf_reaches rt d s nl lf bc p k ->
    u_path x = display (push bc p) -> s = seg.

(* no section that a leaf with the file of [x] reaches in half [nl] of [seg] selects the name of [x] *)
Definition half_silent (rt : runtime) (d : document) (x : usec) (seg : segment) (nl : bool) : Prop :=
  forall lf bc p k,
    leaf_reaches rt d seg nl lf bc p k -> u_path x = display (push bc p) ->
    ~ name_match k (wildcard_sections seg) (u_name x).

Local Open Scope Z_scope.

(* the placement of [x] in the final state lies inside the address range of [seg]: between the start of
   its output section .seg and its VRAM_END symbol *)
Definition InsideSegment (sty : style) (st' : lstate) (seg : segment) (x : usec) : Prop :=
  exists p o1 ve,
    In p (l_placed st') /\ pl_marker p = u_marker x /\ seg_outsec seg (pl_outsec p) /\
    find_sec (alloc_name seg) (l_secs st') = Some o1 /\
    val st' (segment_vram_end sty (sg_name seg)) = Some ve /\
    os_vma o1 <= pl_addr p /\ pl_addr p + u_size x <= ve.

(* ---------- sample data ---------- *)

Local Open Scope string_scope.

(* prefix capture: with wildcard_sections the statement for a.o and .data (written with a trailing star) of the allocatable half also selects
   .data.noinit, which the document lists in the noload half *)
Definition cap_segment (name : string) (files : list file_info) (alloc noload : list string) (wild : bool) : segment :=
  Segment name files None None None None "src" None no_conds alloc noload None
          None None None None [] [] wild None [] KAbsent.

Definition cap_doc : document :=
  Document ex_settings []
    [cap_segment "main" [ex_obj "a.o"] [".text"; ".data"] [".data.noinit"; ".bss"] true] None [] [] [].

Definition cap_universe : list usec :=
  [USec "build/src/a.o" None ".text" 16 4 false "a_text";
   USec "build/src/a.o" None ".data" 8 4 false "a_data";
   USec "build/src/a.o" None ".data.noinit" 32 4 true "a_noinit";
   USec "build/src/a.o" None ".bss" 4 4 true "a_bss"].

(* one object listed by two segments: the first one takes everything *)
Definition twice_doc : document :=
  Document ex_settings []
    [cap_segment "one" [ex_obj "a.o"] [".text"] [".bss"] false;
     cap_segment "two" [ex_obj "a.o"; ex_obj "b.o"] [".text"] [".bss"] false] None [] [] [].

Definition twice_universe : list usec :=
  [USec "build/src/a.o" None ".text" 16 4 false "a_text";
   USec "build/src/b.o" None ".text" 8 4 false "b_text"].
