(* ModesListed - the document-level link statements of C01Listed (a listed input section is placed where
   the document says), C17Doc (_gp from a gp_info) and C02Order for the OTHER modes of the generator:
   single-segment mode (gen_normal with single_segment_mode), the per-segment scripts of a partial build
   (po_subs of gen_partial: the same add_single_segment under cfg_sub_partial) and the main script of a
   partial build (po_main: the multi-segment writer under cfg_main_partial over clones whose only file is
   the partial object).  Declarative definitions only.

   In single-segment mode and in the per-segment scripts every configured section [section] of
   alloc_sections ++ noload_sections is an output section of its own, named after the section; the
   statement of a leaf for a section [k] it reaches from [section] (through section_order and
   sub-groups) is in the body of THAT output section. *)
From Slinky Require Import Model.Types Model.Runtime Model.Style Model.Script Model.Writer Model.LdSem.
From Slinky Require Import Spec.C18 Spec.C04 Spec.C09 Spec.C01 Spec.C11 Spec.DocLevel Spec.C01Doc Spec.C01Listed
                           Spec.DocSingle Spec.DocPartial Spec.C02Order.
From Coq Require Import ZArith.
Local Open Scope string_scope.

(* ---------- what the document lists, with the configured section made visible ---------- *)

(* the directory under which the entries of a segment are placed by a writer of configuration [cfg]: the
   escaped base_path, followed by the escaped dir of the segment unless the script references partial
   objects (Proofs/C06More.v: seg_base).  cfg_normal and cfg_sub_partial: [doc_base] of Spec/C01Listed.v *)
Definition mode_base (rt : runtime) (cfg : wcfg) (d : document) (seg : segment) (b : string) : Prop :=
  exists b0, escape_path rt (base_path (doc_settings d)) = Ok b0 /\
             (if reference_partial cfg then b = b0
              else exists dd, escape_path rt (sg_dir seg) = Ok dd /\ b = push b0 dd).

(* [leaf_reaches] of Spec/C01Listed.v with the writer configuration as a parameter and the configured
   section [section] of half [noload] from which [k] is reached made explicit *)
Definition leaf_reaches_from (rt : runtime) (cfg : wcfg) (d : document) (seg : segment) (noload : bool)
           (section : string) (lf : file_info) (bc p k : string) : Prop :=
  exists b c0 chain,
    mode_base rt cfg d seg b /\ In c0 (sg_files seg) /\ In (lf, bc, chain) (leaves rt b c0) /\
    In section (part_sections seg noload) /\
    reach_via cfg seg (part_sections seg noload) chain section k /\
    escape_path rt (fi_path lf) = Ok p.

(* the claim written, in single-segment mode / in a per-segment script, for the leaf [lf] and the section
   [k] reached from the configured section [section]: an input statement of the output section [section] *)
Definition single_leaf_claim (seg : segment) (section : string) (lf : file_info) (bc p k : string) : claim :=
  CInput section (display (push bc p)) (member_of lf) k (wildcard_sections seg).

Definition single_listed (rt : runtime) (cfg : wcfg) (d : document) (seg : segment) (c : claim) : Prop :=
  exists nl section lf bc p k,
    leaf_reaches_from rt cfg d seg nl section lf bc p k /\ c = single_leaf_claim seg section lf bc p k.

(* the claims of [script] are exactly what the document lists for the one segment [seg] - every claim is
   the statement of a leaf for a section it reaches from a configured section, in the output section of that
   configured section, and every such statement is there - followed by the claims of the tail of SECTIONS
   (allow-list entries, discard block: the per-segment scripts of a partial build have this tail too) *)
Definition SingleClaims (rt : runtime) (cfg : wcfg) (d : document) (seg : segment) (script : list stmt) : Prop :=
  exists A, script_claims script = (A ++ tail_claims (doc_settings d))%list /\
    (forall c, In c A -> single_listed rt cfg d seg c) /\
    (forall nl section lf bc p k, leaf_reaches_from rt cfg d seg nl section lf bc p k ->
                                  In (single_leaf_claim seg section lf bc p k) A).

(* document-side condition for "the first statement that matches [x] is in an output section whose name
   satisfies [P]" (one segment: the analogue of [matching_leaves_in]; [path_only_in] is trivial here) *)
Definition single_matching_in (rt : runtime) (cfg : wcfg) (d : document) (seg : segment) (x : usec)
           (P : string -> Prop) : Prop :=
  forall nl section lf bc p k,
    leaf_reaches_from rt cfg d seg nl section lf bc p k ->
    input_matches (display (push bc p)) (member_of lf) k (wildcard_sections seg) x -> P section.

(* the analogue of [half_silent]: a leaf with the file of [x] reaches a section that selects the name of
   [x] from the configured section [section] only (in whichever half) *)
Definition others_silent (rt : runtime) (cfg : wcfg) (d : document) (seg : segment) (x : usec)
           (section : string) : Prop :=
  forall nl section' lf bc p k,
    leaf_reaches_from rt cfg d seg nl section' lf bc p k -> u_path x = display (push bc p) ->
    name_match k (wildcard_sections seg) (u_name x) -> section' = section.

(* ---------- scripts whose output sections cannot fail ---------- *)

(* no address expression: LdSem cannot record LForwardRef for the output section *)
Definition addr_free (s : stmt) : Prop :=
  match s with SOutSec _ (Some _) _ _ _ _ => False | _ => True end.

Local Open Scope Z_scope.

(* ---------- where the placement is ---------- *)

(* the placement of [x] in the final state is labelled with the output section [sec], lies with its whole
   size inside that output section, which lies between the section's START and END symbols *)
Definition InsideSection (sty : style) (st' : lstate) (seg : segment) (sec : string) (x : usec) : Prop :=
  exists p o S E,
    In p (l_placed st') /\ pl_marker p = u_marker x /\ pl_outsec p = sec /\
    find_sec sec (l_secs st') = Some o /\
    val st' (segment_section_start sty (sg_name seg) sec) = Some S /\
    val st' (segment_section_end sty (sg_name seg) sec) = Some E /\
    S <= os_vma o /\ os_vma o <= pl_addr p /\ pl_addr p + u_size x <= os_vma o + os_size o /\
    os_vma o + os_size o <= E.

(* per-segment scripts have no section symbols: inside the output section *)
Definition InsideOutsec (st' : lstate) (sec : string) (x : usec) : Prop :=
  exists p o,
    In p (l_placed st') /\ pl_marker p = u_marker x /\ pl_outsec p = sec /\
    find_sec sec (l_secs st') = Some o /\
    os_vma o <= pl_addr p /\ pl_addr p + u_size x <= os_vma o + os_size o.

(* a per-segment script [w] of segment [seg]: an input section of the universe [u] that a listed statement
   selects, and whose first matching statement is in the output section [section] the statement belongs
   to, is placed in that output section at the end of the pass (no error condition: the output sections
   have no address expression); with distinct section names that are not allow-list names, non-negative
   sizes and distinct markers the placement lies inside the output section found under that name *)
Definition SubListedPlaced (env : list (string * Z)) (senv : list osec) (ext : list (string * Z)) (final : bool)
           (d : document) (rt : runtime) (seg : segment) (w : writer_out) (u : list usec) : Prop :=
  let st' := exec_script env senv ext final (wo_script w) (init_state u) in
  forall nl section lf bc p k x,
    leaf_reaches_from rt cfg_sub_partial d seg nl section lf bc p k -> In x u ->
    input_matches (display (push bc p)) (member_of lf) k (wildcard_sections seg) x ->
    first_goes (wo_script w) x (eq section) ->
    placed_at st' x section /\ ~ In x (l_remaining st') /\
    (Forall (fun y => 0 <= u_size y) u -> NoDup (map u_marker u) -> NoDup (seg_sections seg) ->
     ~ In section (aux_section_names (doc_settings d)) -> InsideOutsec st' section x).

Local Open Scope string_scope.

(* ---------- the main script of a partial build ---------- *)

(* the path under which the main script names the partial object of [seg] (C11_main_places_partial) *)
Definition partial_obj_path (rt : runtime) (stg : settings) (folder : string) (seg : segment) : option string :=
  match escape_path rt (base_path stg), escape_path rt (partial_object folder seg) with
  | Ok b0, Ok pe => Some (display (push b0 pe))
  | _, _ => None
  end.

(* one statement per configured section of the half, in the output section of the half *)
Definition main_part_claims (seg : segment) (nl : bool) (path : string) : list claim :=
  map (fun s => CInput (part_name seg nl) path None s (wildcard_sections seg)) (part_sections seg nl).

Definition main_seg_claims (rt : runtime) (stg : settings) (folder : string) (seg : segment) : list claim :=
  match partial_obj_path rt stg folder seg with
  | Some path => (main_part_claims seg false path ++ main_part_claims seg true path)%list
  | None => []
  end.

(* document-side condition for the main script: every (included segment, half, configured section) whose
   statement would select [x] belongs to an output section in [P] *)
Definition main_matching_in (rt : runtime) (d : document) (folder : string) (x : usec) (P : string -> Prop) : Prop :=
  forall s nl section path,
    In s (included rt (doc_segments d)) -> In section (part_sections s nl) ->
    partial_obj_path rt (doc_settings d) folder s = Some path ->
    input_matches path None section (wildcard_sections s) x -> P (part_name s nl).

(* simpler: the partial object of [x] is the one of [seg] only ... *)
Definition object_only_of (rt : runtime) (d : document) (folder : string) (x : usec) (seg : segment) : Prop :=
  forall s, In s (included rt (doc_segments d)) ->
            partial_obj_path rt (doc_settings d) folder s = Some (u_path x) -> s = seg.

(* ... and no configured section of half [nl] of [seg] selects the name of [x] *)
Definition main_half_silent (seg : segment) (nl : bool) (x : usec) : Prop :=
  forall section, In section (part_sections seg nl) -> ~ name_match section (wildcard_sections seg) (u_name x).

(* ---------- C02: positions in a single-segment script ---------- *)

(* the claim [c] is written at position [pos] of the one segment: pos = h :: i :: path with [h] the half
   (0: alloc_sections, 1: noload_sections), [i] the index of a configured section [section] in the list of
   that half - the output section named [section] -, [path] the position (Spec/C02Order.v: KidsAt - entry,
   section of its expansion, entry of the group, ...) in the file list of the segment asked for [section]
   of an input statement whose claim is [c] *)
Definition SingleClaimAt (rt : runtime) (cfg : wcfg) (d : document) (seg : segment) (pos : list nat) (c : claim) : Prop :=
  exists nl i section b path kp pth member sect wild,
    pos = half_index nl :: i :: path /\
    nth_error (part_sections seg nl) i = Some section /\
    mode_base rt cfg d seg b /\
    KidsAt rt (linker_symbols_style (doc_settings d)) cfg seg (part_sections seg nl) (sg_files seg) section b path
           (SInput kp pth member sect wild) /\
    c = CInput section pth member sect wild.

(* [x] is first matched, among the statements of the segment, by the one at [pos] (claim [c]) *)
Definition single_first_matched_at (rt : runtime) (cfg : wcfg) (d : document) (seg : segment) (pos : list nat)
           (c : claim) (x : usec) : Prop :=
  SingleClaimAt rt cfg d seg pos c /\ claim_matches c x = true /\
  forall pos' c', SingleClaimAt rt cfg d seg pos' c' -> lex_lt pos' pos -> claim_matches c' x = false.

(* ---------- sample data ---------- *)

(* the first per-segment script of gen_partial ex_doc (segment boot) *)
Definition ml_sub_boot : list stmt := match ds_subs with (_, s) :: _ => s | [] => [] end.

Definition ml_boot_seg : segment := ex_segment "boot" ex_files_boot None (Some ex_gp) no_conds.

Definition ml_lib : file_info := ex_group "lib" [ex_archive "libc.a" "mem.o"; ex_obj "util.o"].
