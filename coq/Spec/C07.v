(* C07 - emitted paths: {key} substitution and path joining, written declaratively. *)
From Slinky Require Import Model.Types Model.Runtime Model.Script Model.Writer.
Local Open Scope string_scope.

(* ---------- one path component ---------- *)

(* [out] put in front of a successful result; an error stays as it is *)
Definition prefix_res (out : string) (r : res string) : res string :=
  match r with Ok s => Ok (out ++ s) | Err e => Err e end.

(* The substitution on one component, reading left to right, independent of any scanner:
   - text up to the first "{" is literal;
   - from a "{" to the NEXT "}" is a key, replaced by the value of that custom option;
   - a key that was not provided is the error, for the FIRST such key from the left;
   - a "{" with no "}" after it is literal text (nothing to replace).
   [orig] is the whole original path, reported in the error. *)
Inductive Subst (rt : runtime) (orig : string) : string -> res string -> Prop :=
| Subst_nil :
    Subst rt orig "" (Ok "")
| Subst_lit_ok c s r :
    c <> "{"%char -> Subst rt orig s (Ok r) ->
    Subst rt orig (String c s) (Ok (String c r))
| Subst_lit_err c s e :
    c <> "{"%char -> Subst rt orig s (Err e) ->
    Subst rt orig (String c s) (Err e)
| Subst_key_ok key v rest r :
    contains_char "}" key = false -> opt_get rt key = Some v ->
    Subst rt orig rest (Ok r) ->
    Subst rt orig ("{" ++ key ++ "}" ++ rest) (Ok (v ++ r))
| Subst_key_err_later key v rest e :
    contains_char "}" key = false -> opt_get rt key = Some v ->
    Subst rt orig rest (Err e) ->
    Subst rt orig ("{" ++ key ++ "}" ++ rest) (Err e)
| Subst_key_missing key rest :
    contains_char "}" key = false -> opt_get rt key = None ->
    Subst rt orig ("{" ++ key ++ "}" ++ rest) (Err (ECustomOptionNotProvided orig key))
| Subst_open t :
    contains_char "}" t = false ->
    Subst rt orig ("{" ++ t) (Ok ("{" ++ t)).

(* the keys referenced by a component, in order of occurrence (with repetitions) *)
Inductive Keys : string -> list string -> Prop :=
| Keys_nil : Keys "" []
| Keys_lit c s l : c <> "{"%char -> Keys s l -> Keys (String c s) l
| Keys_key key rest l :
    contains_char "}" key = false -> Keys rest l -> Keys ("{" ++ key ++ "}" ++ rest) (key :: l)
| Keys_open t : contains_char "}" t = false -> Keys ("{" ++ t) [].

Definition Provided (rt : runtime) (k : string) : Prop := exists v, opt_get rt k = Some v.

(* [k] is the first key of [l] that was not provided *)
Definition FirstMissing (rt : runtime) (l : list string) (k : string) : Prop :=
  exists l1 l2, l = (l1 ++ k :: l2)%list /\ (forall k', In k' l1 -> Provided rt k') /\ opt_get rt k = None.


(* ---------- paths ---------- *)

Definition relative (q : string) : Prop := is_absolute q = false.

(* the components a relative path contributes once it is pushed after a non-empty path: its
   non-empty parts other than "." *)
Definition rel_comps (q : string) : list string := drop_dots (split_on "/" q).

(* ... that is, its components but for a leading "." *)
Definition strip_cur (l : list string) : list string :=
  match l with
  | x :: r => if String.eqb x "." then r else l
  | [] => []
  end.

(* [parts] pushed one after the other on [acc] (PathBuf::push) *)
Definition push_all (acc : string) (parts : list string) : string := fold_left push parts acc.

(* the components of relative parts pushed one after the other on the empty path: those of the first
   non-empty part (a leading "." is kept there, as Path::components does), then the non-empty,
   non-"." parts of the others *)
Fixpoint rel_join (parts : list string) : list string :=
  match parts with
  | [] => []
  | q :: r => if is_empty q then rel_join r else (components q ++ flat_map rel_comps r)%list
  end.

(* the components of relative parts pushed on any path *)
Definition joined (acc : string) (parts : list string) : list string :=
  if is_empty acc then rel_join parts else (components acc ++ flat_map rel_comps parts)%list.

(* [leaf] is an object or archive entry reachable in the file tree [f] through the groups whose
   [dir]s are [dirs] (outermost first), every entry on the way being included by its conditions *)
Inductive PathTo (rt : runtime) : file_info -> list string -> file_info -> Prop :=
| PathTo_here f :
    should_emit rt (fi_conds f) = true -> fi_kind f = KObject \/ fi_kind f = KArchive ->
    PathTo rt f [] f
| PathTo_group f c dirs leaf :
    should_emit rt (fi_conds f) = true -> fi_kind f = KGroup -> In c (fi_files f) ->
    PathTo rt c dirs leaf -> PathTo rt f (fi_dir f :: dirs) leaf.

(* [raw] is the path of such an entry of [f] under [base]: base, then the escaped group dirs,
   then the escaped entry path, each pushed on the previous *)
Definition RawPath (rt : runtime) (base : string) (f : file_info) (raw : string) : Prop :=
  exists dirs leaf dirs' p',
    PathTo rt f dirs leaf /\
    map_res (escape_path rt) dirs = Ok dirs' /\
    escape_path rt (fi_path leaf) = Ok p' /\
    raw = push_all base (dirs' ++ [p'])%list.

(* every input-section statement of [stmts] names such a path ... *)
Definition InputsFrom (rt : runtime) (base : string) (files : list file_info) (stmts : list stmt) : Prop :=
  Forall (fun s => forall keep path sub k w, s = SInput keep path sub k w ->
                   exists f raw, In f files /\ RawPath rt base f raw /\ path = display raw) stmts.

(* ... and every path recorded for the dependency file is an old one or such a path *)
Definition PathsFrom (rt : runtime) (base : string) (files : list file_info) (old new : wstate) : Prop :=
  forall c, In c (ws_paths new) ->
            In c (ws_paths old) \/ exists f raw, In f files /\ RawPath rt base f raw /\ c = components raw.
