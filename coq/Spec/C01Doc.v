(* C01Doc / C02Doc - the link-level halves of C01 and C02 over a WHOLE generated document:
   declarative definitions.  Spec/DocLevel.v describes the script and the state after linking
   (RomChain, VramChain); here are the predicates about the PLACEMENTS of the final state. *)
From Slinky Require Import Model.Types Model.Runtime Model.Style Model.Script Model.Writer Model.LdSem.
From Slinky Require Import Spec.C18 Spec.C04 Spec.C09 Spec.C01 Spec.DocLevel.
From Coq Require Import ZArith.
Local Open Scope string_scope.

(* ---------- the placements of one output section ---------- *)

(* the placements of [st] whose output section is [n], in the order they were made (LdSem appends to
   l_placed: [l_placed st ++ pls] in exec_sec_stmt and exec_top_stmt, so list order = placement order) *)
Definition placed_in (n : string) (st : lstate) : list placement :=
  filter (fun p => String.eqb (pl_outsec p) n) (l_placed st).

(* ---------- one more condition on the document ---------- *)

(* the output sections that the tail of SECTIONS creates itself: one "name 0 : { *(name) }" per entry
   of sections_allowlist and sections_allowlist_extra *)
Definition aux_section_names (stg : settings) : list string :=
  (sections_allowlist stg ++ sections_allowlist_extra stg)%list.

(* no included segment is called like one of them: ".mdebug" is then ONE name for two output sections
   of the script, and "the placements in .mdebug" mixes the segment's with those of the allowlist
   entry (placed from address 0); see C02_refuted_allowlist_name *)
Definition doc_outsecs_fresh (d : document) (rt : runtime) : bool :=
  forallb (fun n => negb (mem_str n (aux_section_names (doc_settings d))))
          (out_names (included rt (doc_segments d))).

Local Open Scope Z_scope.

(* ---------- C02: ROM positions never decrease in segment order ---------- *)

(* going up from [r]: r <= ROM_START(s_1) <= ROM_END(s_1) <= ROM_START(s_2) <= ... ; SIZE = END - START;
   after the last segment __romPos is the last ROM_END *)
Fixpoint RomMonotone (sty : style) (st' : lstate) (r : Z) (segs : list segment) : Prop :=
  match segs with
  | [] => val st' "__romPos" = Some r
  | seg :: rest =>
      exists rs re,
        val st' (segment_rom_start sty (sg_name seg)) = Some rs /\
        val st' (segment_rom_end sty (sg_name seg)) = Some re /\
        val st' (segment_rom_size sty (sg_name seg)) = Some (re - rs) /\
        r <= rs /\ rs <= re /\
        RomMonotone sty st' re rest
  end.

(* ---------- C02: addresses never decrease within a segment ---------- *)

(* the placements of .seg, in placement order, have non-decreasing addresses; so have those of
   .seg.noload; and everything placed in .seg.noload is at or after everything placed in .seg *)
Definition VramOrderWithin (st' : lstate) (seg : segment) : Prop :=
  nondecreasing (map pl_addr (placed_in (alloc_name seg) st')) /\
  nondecreasing (map pl_addr (placed_in (noload_name seg) st')) /\
  (forall p q, In p (placed_in (alloc_name seg) st') -> In q (placed_in (noload_name seg) st') ->
               pl_addr p <= pl_addr q).

(* ---------- C01: every placed input section lies inside its segment ---------- *)

(* a placement does not record the size of the input section: [p] is the placement of an input section
   [x] of [u] (same marker), and [addr, addr + size) lies inside [lo, hi] *)
Definition placement_within (u : list usec) (lo hi : Z) (p : placement) : Prop :=
  exists x, In x u /\ u_marker x = pl_marker p /\ lo <= pl_addr p /\ pl_addr p + u_size x <= hi.

(* in the state [st'], for the universe [u]: both output sections of the segment exist, the noload one
   at or after the end of the allocatable one, VRAM_END at or after the end of the noload one; every
   placement in .seg lies inside .seg, every placement in .seg.noload inside .seg.noload - hence all of
   them inside [start of .seg, VRAM_END(seg)] *)
Definition InSegmentRange (sty : style) (u : list usec) (st' : lstate) (seg : segment) : Prop :=
  exists o1 o2 ve,
    find_sec (alloc_name seg) (l_secs st') = Some o1 /\
    find_sec (noload_name seg) (l_secs st') = Some o2 /\
    val st' (segment_vram_end sty (sg_name seg)) = Some ve /\
    0 <= os_size o1 /\ 0 <= os_size o2 /\
    os_vma o1 + os_size o1 <= os_vma o2 /\ os_vma o2 + os_size o2 <= ve /\
    Forall (placement_within u (os_vma o1) (os_vma o1 + os_size o1)) (placed_in (alloc_name seg) st') /\
    Forall (placement_within u (os_vma o2) (os_vma o2 + os_size o2)) (placed_in (noload_name seg) st') /\
    Forall (placement_within u (os_vma o1) ve)
           (placed_in (alloc_name seg) st' ++ placed_in (noload_name seg) st')%list.

(* ---------- C01: nothing is lost, nothing is an orphan ---------- *)

Definition ExactlyOne (A B C : Prop) : Prop :=
  (A /\ ~ B /\ ~ C) \/ (~ A /\ B /\ ~ C) \/ (~ A /\ ~ B /\ C).

(* the input section with marker [m] is placed / discarded / still waiting (an orphan for ld) *)
Definition is_placed (st : lstate) (m : string) : Prop := In m (map pl_marker (l_placed st)).
Definition is_discarded (st : lstate) (m : string) : Prop := In m (l_discarded st).
Definition is_orphan (st : lstate) (m : string) : Prop := In m (map u_marker (l_remaining st)).

(* ---------- sample data for the refutation: a segment called like an allowlist entry ---------- *)

Local Open Scope string_scope.

Definition clash_doc : document :=
  Document ex_settings
    [VramClass "overlay" (Some 2148532224%N) None [] KAbsent]
    [ex_segment "mdebug" [ex_obj "a.o"] (Some "overlay") None no_conds]
    None [] [] [].

Definition clash_universe : list usec :=
  [USec "build/src/a.o" None ".text" 24 4 false "a_text";
   USec "build/src/z.o" None ".mdebug" 8 4 false "z_mdebug"].

(* ---------- sample data: the wildcard of the DISCARD block switched off ---------- *)

Definition keep_settings : settings :=
  Settings "build" Splat (Some 2147516416%N) (Some "out/game.d") (Some "out/game.elf") (Some "include/syms.h")
           "char" true [".mdebug"] [".symtab"; ".strtab"] [".reginfo"; ".got"] false false
           (Some "ld/partial") (Some "segments")
           [".text"; ".data"; ".sdata"] [".bss"] None None None None None [] [] true (Some 0%N) [].

Definition keep_doc : document :=
  Document keep_settings [] [ex_segment "boot" [ex_obj "boot.o"] None None no_conds] None [] [] [].

Definition keep_universe : list usec :=
  [USec "build/src/boot.o" None ".text" 40 16 false "boot_text";
   USec "build/src/boot.o" None ".comment" 7 1 false "boot_comment";
   USec "build/src/boot.o" None ".reginfo" 24 4 false "boot_reginfo"].
