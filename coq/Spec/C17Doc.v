(* C17Doc / C18Doc - the link-level halves of C17 and C18 over a WHOLE generated document:
   declarative definitions.  The per-statement facts are in Properties/C17Link.v and C18Link.v, the
   shape of the script in Properties/C17.v and C18.v; here are the predicates that tie the document
   to the state LdSem reaches at the end of a pass. *)
From Slinky Require Import Model.Types Model.Runtime Model.Style Model.Script Model.Writer Model.LdSem.
From Slinky Require Import Spec.C18 Spec.C17 Spec.C04 Spec.C12 Spec.DocLevel Spec.C01Doc.
From Coq Require Import ZArith.
Local Open Scope string_scope.

(* ====================================================================== *)
(* the passes of layout                                                    *)
(* ====================================================================== *)

(* the state the LAST pass of [layout script u ext0] reaches after executing the statement list [l]
   from the initial state: same previous-pass symbols and sections, same object symbols *)
Definition last_pass (script : list stmt) (u : list usec) (ext0 : list (string * Z)) (l : list stmt) : lstate :=
  let p1 := exec_script [] [] ext0 false script (init_state u) in
  let p2 := exec_script (l_syms p1) (l_secs p1) (ext0 ++ markers_of p1)%list false script (init_state u) in
  run (l_syms p2) (l_secs p2) (ext0 ++ markers_of p2)%list true l (init_state u).

(* the symbols of the previous pass and of the objects, as the last pass of layout sees them *)
Definition last_env (script : list stmt) (u : list usec) (ext0 : list (string * Z)) : list (string * Z) :=
  let p1 := exec_script [] [] ext0 false script (init_state u) in
  l_syms (exec_script (l_syms p1) (l_secs p1) (ext0 ++ markers_of p1)%list false script (init_state u)).

Definition last_ext (script : list stmt) (u : list usec) (ext0 : list (string * Z)) : list (string * Z) :=
  let p1 := exec_script [] [] ext0 false script (init_state u) in
  (ext0 ++ markers_of (exec_script (l_syms p1) (l_secs p1) (ext0 ++ markers_of p1)%list false script
                                   (init_state u)))%list.

(* ====================================================================== *)
(* C18: where the tail of SECTIONS starts                                  *)
(* ====================================================================== *)

(* the script is "version; SECTIONS { pre; tail of SECTIONS }; tail" and nothing in [pre], at any depth,
   is an allow-list entry or a discard block: [pre] is "the segments' statements" (C18_tail_last_normal
   gives such a split for every generated script, both modes) *)
Definition SplitAtTail (d : document) (rt : runtime) (w : writer_out) (pre : list stmt) (ws : wstate) : Prop :=
  wo_script w = (version_stmts rt ++
                 [SSections (pre ++ end_sections_body (doc_settings d) (doc_vram_classes d) ws)] ++
                 tail_stmts rt d)%list /\
  Forall no_tail_stmt pre.

(* multi-segment mode: the canonical split *)
Definition multi_pre (d : document) (rt : runtime) : list stmt :=
  match fold_out (add_segment rt (doc_settings d) cfg_normal (doc_vram_classes d)) (doc_segments d) ws0 with
  | Ok (body, _) => (begin_sections_body (doc_settings d) ++ body)%list
  | Err _ => []
  end.

Definition multi_ws (d : document) (rt : runtime) : wstate :=
  match fold_out (add_segment rt (doc_settings d) cfg_normal (doc_vram_classes d)) (doc_segments d) ws0 with
  | Ok (_, ws) => ws
  | Err _ => ws0
  end.

(* the input section's name is an entry of sections_allowlist or sections_allowlist_extra *)
Definition allow_listed (stg : settings) (x : usec) : bool := mem_str (u_name x) (aux_section_names stg).

(* the discard block would take it: its name is an entry of sections_denylist, or the wildcard is on *)
Definition discard_hits (stg : settings) (x : usec) : bool :=
  mem_str (u_name x) (sections_denylist stg) || discard_wildcard_section stg.

(* [p] is the placement of the input section [x] in an output section named after it *)
Definition placed_by_name (x : usec) (p : placement) : Prop :=
  pl_marker p = u_marker x /\ pl_outsec p = u_name x.

(* what the tail of SECTIONS and the statements after it do, [st_seg] being the state when the tail
   starts and [st'] the state at the end of the pass: of the input sections still unplaced in [st_seg]
   (in link order), the allow-listed ones are placed in an output section of their name, the others are
   discarded when the discard block takes them and are left waiting otherwise; nothing else moves *)
Definition TailOutcome (stg : settings) (st_seg st' : lstate) : Prop :=
  let R := l_remaining st_seg in
  l_remaining st' = filter (fun x => negb (allow_listed stg x) && negb (discard_hits stg x)) R /\
  l_discarded st' =
    (l_discarded st_seg ++ map u_marker (filter (fun x => negb (allow_listed stg x) && discard_hits stg x) R))%list /\
  exists pls,
    l_placed st' = (l_placed st_seg ++ pls)%list /\
    Forall (fun p => exists x, In x R /\ allow_listed stg x = true /\ placed_by_name x p) pls /\
    (forall x, In x R -> allow_listed stg x = true -> exists p, In p pls /\ placed_by_name x p).

(* ====================================================================== *)
(* C17: the checks after SECTIONS                                          *)
(* ====================================================================== *)

Definition included_assignments (rt : runtime) (d : document) : list symbol_assignment :=
  filter (fun a => should_emit rt (sa_conds a)) (doc_symbol_assignments d).

Definition included_required (rt : runtime) (d : document) : list required_symbol :=
  filter (fun r => should_emit rt (rq_conds r)) (doc_required_symbols d).

Definition included_asserts (rt : runtime) (d : document) : list assert_entry :=
  filter (fun a => should_emit rt (ae_conds a)) (doc_asserts d).

(* the (condition, message) pairs of the ASSERT statements, in script order: required symbols, asserts *)
Definition doc_checks (rt : runtime) (d : document) : list (string * string) :=
  (map (fun r => (("DEFINED(" ++ rq_name r ++ ")")%string, required_msg (rq_name r))) (included_required rt d) ++
   map (fun a => (ae_check a, ae_error_message a)) (included_asserts rt d))%list.

(* what ASSERT(cond, msg) adds to the errors when its condition is evaluated with the script symbols
   of [st]: the message when the condition is 0, nothing when it is another number; a condition outside
   the modelled grammar or (in the last pass) naming an unknown symbol is reported as such *)
Definition check_outcome (env ext : list (string * Z)) (final : bool) (st : lstate) (cm : string * string)
  : list lerr :=
  match eval_raw env ext st (fst cm) with
  | Ok v => if (v =? 0)%Z then [LAssertFailed (snd cm)] else []
  | Err (ECrash t) => [LOpaque t]
  | Err _ => if final then [LUndefined (fst cm)] else []
  end.

Definition not_assert_failure (e : lerr) : Prop := match e with LAssertFailed _ => False | _ => True end.

(* the errors of the final state: those of everything up to the user's symbol assignments - none of them
   an assertion failure - then what each check reports, in script order, every condition being read
   with the symbols of the FINAL state (the checks follow all assignments) *)
Definition ChecksOutcome (env ext : list (string * Z)) (final : bool) (rt : runtime) (d : document)
           (st' : lstate) : Prop :=
  exists before,
    l_errors st' = (before ++ flat_map (check_outcome env ext final st') (doc_checks rt d))%list /\
    Forall not_assert_failure before.

(* ====================================================================== *)
(* C17: _gp                                                                *)
(* ====================================================================== *)

(* no included user assignment is named _gp *)
Definition no_user_gp (rt : runtime) (d : document) : bool :=
  forallb (fun a => negb (String.eqb (sa_name a) "_gp")) (included_assignments rt d).

(* ====================================================================== *)
(* sample data                                                             *)
(* ====================================================================== *)

(* dl_doc without the hard-coded _gp: boot's gp_info {.sdata, 0x7FF0, PROVIDE} is the only definition *)
Definition gp_settings_info : settings :=
  Settings "build" Splat None (Some "out/game.d") (Some "out/game.elf") (Some "include/syms.h")
           "char" true [".mdebug"] [".symtab"; ".strtab"] [".reginfo"; ".got"] true false
           (Some "ld/partial") (Some "segments")
           [".text"; ".data"; ".sdata"] [".bss"] None None None None None [] [] true (Some 0%N) [].

Definition gp_doc_info : document :=
  Document gp_settings_info (doc_vram_classes dl_doc) (doc_segments dl_doc) (doc_entry dl_doc)
           (doc_symbol_assignments dl_doc) (doc_required_symbols dl_doc) (doc_asserts dl_doc).

(* dl_doc with the hard-coded _gp and no gp_info *)
Definition gp_doc_hard : document :=
  Document ex_settings (doc_vram_classes dl_doc)
    [ex_segment "boot" ex_files_boot None None no_conds;
     ex_segment "ovl_a" [ex_obj "a.o"] (Some "overlay") None no_conds]
    (doc_entry dl_doc) (doc_symbol_assignments dl_doc) (doc_required_symbols dl_doc) (doc_asserts dl_doc).

(* a document whose assert fails: boot is 68 bytes of ROM *)
Definition failing_doc : document :=
  Document ex_settings (doc_vram_classes dl_doc) (doc_segments dl_doc) (doc_entry dl_doc)
           (doc_symbol_assignments dl_doc) (doc_required_symbols dl_doc)
           [AssertEntry "boot_ROM_SIZE <= 0x10" "boot too big" no_conds;
            AssertEntry "boot_ROM_SIZE <= 0x1000" "never reported" no_conds].

(* dl_universe plus a .mdebug section (allow-listed), a .reginfo section (denied), a .comment section
   (caught by the wildcard) and the sections of an object no segment names *)
Definition dl_universe_discard : list usec :=
  (dl_universe ++
   [USec "build/src/boot.o" None ".mdebug" 20 4 false "boot_mdebug";
    USec "build/src/boot.o" None ".reginfo" 24 4 false "boot_reginfo";
    USec "build/src/a.o" None ".comment" 7 1 false "a_comment";
    USec "build/src/stray.o" None ".mdebug" 12 4 false "stray_mdebug";
    USec "build/src/stray.o" None ".text" 16 4 false "stray_text"])%list.

(* dl_doc with the wildcard switched off and the deny list emptied *)
Definition nodiscard_doc : document :=
  Document (Settings "build" Splat (Some 2147516416%N) (Some "out/game.d") (Some "out/game.elf")
                     (Some "include/syms.h") "char" true [".mdebug"] [".symtab"; ".strtab"] [] false false
                     (Some "ld/partial") (Some "segments")
                     [".text"; ".data"; ".sdata"] [".bss"] None None None None None [] [] true (Some 0%N) [])
           (doc_vram_classes dl_doc) (doc_segments dl_doc) (doc_entry dl_doc) (doc_symbol_assignments dl_doc)
           (doc_required_symbols dl_doc) (doc_asserts dl_doc).


(* the script generated for a sample document with the sample run-time settings *)
Definition script_of (d : document) : list stmt :=
  match gen_normal d ex_rt with Ok w => wo_script w | Err _ => [] end.

