(* C02Order - the bridge between the two halves of C02: "After linking, the addresses of the placed
   input sections never decrease along EXACTLY THAT ORDER within each segment" - that order being the
   order of the statements, hence of the document.  Declarative definitions.
   1. any script: the blocks of input sections that the claims of the script take, one after the
      other ([claim_blocks]); l_placed is their concatenation;
   2. a generated script: the POSITION of an input statement in the document ([ClaimAt]: segment, half,
      section of the half, then the path through the file list: entry, section of its expansion, entry
      of the group, ...), compared lexicographically ([lex_lt]): the document order of C02. *)
From Slinky Require Import Model.Types Model.Runtime Model.Style Model.Script Model.Writer Model.LdSem.
From Slinky Require Import Spec.C18 Spec.C04 Spec.C09 Spec.C01 Spec.DocLevel Spec.C01Doc Spec.C01Listed.
From Coq Require Import ZArith Sorted.
Local Open Scope string_scope.

(* ====================================================================== *)
(* 1. any script: what each claim takes                                    *)
(* ====================================================================== *)

(* no claim of [pre] matches [x] *)
Definition unclaimed (pre : list claim) (x : usec) : bool :=
  forallb (fun c => negb (claim_matches c x)) pre.

(* the input sections of the universe [u], IN UNIVERSE ORDER (LdSem.place walks the filtered
   l_remaining, which is a sub-list of the universe), that the claim [c] takes when the claims [pre]
   come before it: those that [c] matches and no claim of [pre] matches *)
Definition taken_by (pre : list claim) (c : claim) (u : list usec) : list usec :=
  filter (fun x => unclaimed pre x && claim_matches c x) u.

(* the claims [cs], in order, each with its block; [pre]: the claims before them *)
Fixpoint claim_blocks (pre cs : list claim) (u : list usec) : list (claim * list usec) :=
  match cs with
  | [] => []
  | c :: r => (c, taken_by pre c u) :: claim_blocks (pre ++ [c]) r u
  end.

(* what a block adds to l_placed (marker, output section) and to l_discarded (marker) *)
Definition block_placements (b : claim * list usec) : list (string * string) :=
  match claim_outsec (fst b) with
  | Some o => map (fun x => (u_marker x, o)) (snd b)
  | None => []
  end.

Definition block_discards (b : claim * list usec) : list string :=
  match claim_outsec (fst b) with
  | Some _ => []
  | None => map u_marker (snd b)
  end.

Definition placement_key (p : placement) : string * string := (pl_marker p, pl_outsec p).

Local Open Scope Z_scope.

(* the amounts of the pads ("." += n) of a statement list *)
Definition dot_adds (l : list stmt) : Z :=
  fold_right (fun s a => match s with SDotAdd n => Z.of_N n + a | _ => a end) 0 l.

(* [px] then [py] in the list, [px] the placement of [x] and [py] that of [y], both in [outsec], and
   [y] starts at least [gap] after the end of [x] *)
Definition placed_in_order (placed : list placement) (outsec : string) (x y : usec) (gap : Z) : Prop :=
  exists px py l1 l2 l3,
    placed = (l1 ++ px :: l2 ++ py :: l3)%list /\
    pl_marker px = u_marker x /\ pl_outsec px = outsec /\
    pl_marker py = u_marker y /\ pl_outsec py = outsec /\
    pl_addr px + u_size x + gap <= pl_addr py.

Local Close Scope Z_scope.

(* ====================================================================== *)
(* 2. posns in the document                                            *)
(* ====================================================================== *)

(* lexicographic order on lists of indices; a proper prefix comes first *)
Inductive lex_lt : list nat -> list nat -> Prop :=
| lex_nil n q : lex_lt [] (n :: q)
| lex_head m n p q : m < n -> lex_lt (m :: p) (n :: q)
| lex_tail n p q : lex_lt p q -> lex_lt (n :: p) (n :: q).

Section At.
  Variable rt : runtime.
  Variable sty : style.
  Variable cfg : wcfg.
  Variable seg : segment.
  Variable sections : list string.

  (* the statement [s] that entry [f] writes when it is asked for [section] (Spec/C01.v: EntryStmts),
     with its position: the index [m] of a section [k] in the expansion of [f] for [section] (Expands:
     the sections here, each directly followed by its sub-group sections), then
     - [f] an included object, archive member, pad or linker offset: its own statement for [k];
     - [f] an included group: the index [j] of an entry [c] of the group, then the position of [s]
       among the statements of [c] asked for [k] under the directory of the group *)
  Inductive EntryAt : file_info -> string -> string -> list nat -> stmt -> Prop :=
  | EA_key f section base keys m k path s :
      Expands cfg seg sections f section keys -> nth_error keys m = Some k ->
      FileAt f k base path s -> EntryAt f section base (m :: path) s
  with FileAt : file_info -> string -> string -> list nat -> stmt -> Prop :=
  | FA_leaf f k base s :
      should_emit rt (fi_conds f) = true -> fi_kind f <> KGroup ->
      In s (own_stmts rt sty seg f k base) -> FileAt f k base [] s
  | FA_group f k base d j c path s :
      should_emit rt (fi_conds f) = true -> fi_kind f = KGroup -> escape_path rt (fi_dir f) = Ok d ->
      nth_error (fi_files f) j = Some c -> EntryAt c k (push base d) path s ->
      FileAt f k base (j :: path) s.

  (* a list of entries (the files of the segment, the entries of a group): the index of the entry,
     then the position inside it *)
  Definition KidsAt (files : list file_info) (k base : string) (p : list nat) (s : stmt) : Prop :=
    exists j c path, p = j :: path /\ nth_error files j = Some c /\ EntryAt c k base path s.
End At.

(* the body of half [nl] of [seg]: the index [i] of a section of the half's list, then the position in
   the file list of the segment asked for that section ([b]: the directory of the segment) *)
Definition BodyAt (rt : runtime) (stg : settings) (seg : segment) (nl : bool) (b : string)
           (p : list nat) (s : stmt) : Prop :=
  exists i section path,
    p = i :: path /\ nth_error (part_sections seg nl) i = Some section /\
    KidsAt rt (linker_symbols_style stg) cfg_normal seg (part_sections seg nl) (sg_files seg) section b path s.

Definition half_index (nl : bool) : nat := if nl then 1 else 0.

(* the claim [c] is written at position [pos] of the document: pos = g :: h :: p with [g] the index of
   the segment among the included ones, [h] the half (0: .seg with alloc_sections, 1: .seg.noload with
   noload_sections), [p] the position in the body of that half of an input statement whose claim is [c] *)
Definition ClaimAt (rt : runtime) (d : document) (pos : list nat) (c : claim) : Prop :=
  exists g seg nl b p kp path member sect wild,
    pos = g :: half_index nl :: p /\
    nth_error (included rt (doc_segments d)) g = Some seg /\
    doc_base rt d seg b /\
    BodyAt rt (doc_settings d) seg nl b p (SInput kp path member sect wild) /\
    c = CInput (part_name seg nl) path member sect wild.

(* [l] is enumerated by the positions [At]: every element of [l] has one position - except some
   elements that satisfy [filler] and have none -, the list order is the lexicographic order of the
   positions, and exactly the (position, element) pairs of [At] occur *)
Definition posns {A} (L : list (option (list nat) * A)) : list (list nat) :=
  flat_map (fun q => match fst q with Some p => [p] | None => [] end) L.

Definition Enumerated {A} (filler : A -> Prop) (l : list A) (At : list nat -> A -> Prop) : Prop :=
  exists L : list (prod (option (list nat)) A),
    map snd L = l /\ StronglySorted lex_lt (posns L) /\
    (forall p s, In (Some p, s) L <-> At p s) /\ (forall s, In (None, s) L -> filler s).

Definition no_filler {A} (_ : A) : Prop := False.

(* [x] is first matched, among the statements of the document, by the one at [pos] (claim [c]) *)
Definition first_matched_at (rt : runtime) (d : document) (pos : list nat) (c : claim) (x : usec) : Prop :=
  ClaimAt rt d pos c /\ claim_matches c x = true /\
  forall pos' c', ClaimAt rt d pos' c' -> lex_lt pos' pos -> claim_matches c' x = false.

(* ====================================================================== *)
(* sample data; the naive reading                                          *)
(* ====================================================================== *)

(* the universe of Spec/DocLevel.v with sections for the other entries of segment boot (whose file
   list is boot.o, the group lib [libc.a:mem.o, util.o], a pad of 16 in .data, a linker offset in
   .text, boot.o AGAIN) *)
Definition ord_util_text : usec := USec "build/src/lib/util.o" None ".text" 20 4 false "util_text".
Definition ord_util_data : usec := USec "build/src/lib/util.o" None ".data" 6 4 false "util_data".
Definition ord_util_sdata : usec := USec "build/src/lib/util.o" None ".sdata" 4 4 false "util_sdata".
Definition ord_util_bss : usec := USec "build/src/lib/util.o" None ".bss" 8 4 true "util_bss".
Definition ord_mem_text : usec := USec "build/src/lib/libc.a" (Some "mem.o") ".text" 12 4 false "mem_text".
Definition ord_boot_text : usec := USec "build/src/boot.o" None ".text" 40 16 false "boot_text".

Definition ord_universe : list usec :=
  (dl_universe ++ [ord_util_text; ord_util_data; ord_util_sdata; ord_util_bss; ord_mem_text])%list.

Definition dl_seg_boot : segment := ex_segment "boot" ex_files_boot None (Some ex_gp) no_conds.

Definition ex_lib : file_info := ex_group "lib" [ex_archive "libc.a" "mem.o"; ex_obj "util.o"].

(* a small script with a pad between two input statements *)
Definition pad_script : list stmt :=
  [SSections [SOutSec ".o" None None false None
                      [SInput false "a.o" None ".text" true; SDotAdd 16; SInput false "b.o" None ".text" true]]].
Definition pad_a : usec := USec "a.o" None ".text" 10 4 false "a_text".
Definition pad_b : usec := USec "b.o" None ".text" 8 4 false "b_text".

Local Open Scope Z_scope.

(* the reading of "addresses follow the document order" WITHOUT "no earlier statement takes it": [x] is
   matched by the statement at position q1, [y] by the one at a later position q2 of the same half.
   FALSE of the model (C02_refuted_naive_order): an object listed twice *)
Definition document_order_naive : Prop :=
  forall d rt w u ext0 g seg nl q1 q2 c1 c2 x y,
    gen_normal d rt = Ok w -> single_segment_mode (doc_settings d) = false ->
    Forall (fun z => 0 <= u_size z) u -> NoDup (map u_marker u) -> In x u -> In y u ->
    nth_error (included rt (doc_segments d)) g = Some seg -> lex_lt q1 q2 ->
    ClaimAt rt d (g :: half_index nl :: q1) c1 -> claim_matches c1 x = true ->
    ClaimAt rt d (g :: half_index nl :: q2) c2 -> claim_matches c2 y = true ->
    let st' := layout (wo_script w) u ext0 in
    l_errors st' = [] ->
    placed_in_order (l_placed st') (part_name seg nl) x y 0.
