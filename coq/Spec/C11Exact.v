(* C11Exact - the main script of a partial build against the ordinary script of the same document,
   EXACTLY: declarative definitions.

   Spec/DocPartial.v relates the two scripts by [stmts_rel], whose body relation [body_rel] compares the
   number of definitions of every symbol and the list of UPDATED symbols: it forgets the n of
   ALIGN(sym, n), the operand of MAX and the section of "__romPos += SIZEOF(sec)".  Here:

   - outside the output sections the statements are EQUAL (same SAssign with the same expression, same
     SAlign sym n, SMaxSelf sym other, SRomAdd sec, ...);
   - two output sections have equal headers (name, address expression, AT symbol, NOLOAD, SUBALIGN) and
     their bodies are "the same FILL, then one group per section of the half", where a group is
       ordinary:  pre ++ files ++ post        main:  pre ++ [the input of the partial object] ++ post
     with the SAME [pre] and [post] (start alignments, _gp, start symbol; end alignments, end and size
     symbols, the blank line), which contain no input and no pad, and [files] made only of inputs, pads
     and linker-offset definitions (group_stmt, Spec/C05.v). *)
From Slinky Require Import Model.Types Model.Runtime Model.Style Model.Script Model.Writer.
From Slinky Require Import Spec.C18 Spec.C04 Spec.C05 Spec.C11 Spec.DocLevel Spec.DocWf Spec.DocPartial.
Local Open Scope string_scope.

(* ---------- statement shapes ---------- *)

Definition is_input (s : stmt) : bool := match s with SInput _ _ _ _ _ => true | _ => false end.
Definition is_outsec (s : stmt) : bool := match s with SOutSec _ _ _ _ _ _ => true | _ => false end.

(* a statement of the frame of a group: not an input, not a pad, not a block *)
Definition frame_stmt (s : stmt) : bool :=
  match s with
  | SInput _ _ _ _ _ | SDotAdd _ | SOutSec _ _ _ _ _ _ | SSections _ => false
  | _ => true
  end.

(* ---------- what identifies the pair of bodies of one output section ---------- *)

Record sec_info := SecInfo {
  si_obj : string;            (* the partial object, as the main script shows it *)
  si_wild : bool;             (* wildcard_sections of the segment *)
  si_secs : list string;      (* the sections of this half (alloc or noload): one group each *)
  si_offs : list string }.    (* the names of the linker_offset entries of the segment *)

(* the single input statement of a group of the main script: never KEEP, no archive member *)
Definition main_input (i : sec_info) (sec : string) : stmt := SInput false (si_obj i) None sec (si_wild i).

(* one section group *)
Inductive group_exact (sty : style) (i : sec_info) (sec : string) : list stmt -> list stmt -> Prop :=
| ge_intro : forall pre files post,
    forallb frame_stmt pre = true -> forallb frame_stmt post = true ->
    Forall (group_stmt sty (fun n => In n (si_offs i))) files ->
    group_exact sty i sec (pre ++ files ++ post) (pre ++ [main_input i sec] ++ post).

(* one group per section, in the order of the list *)
Inductive groups_exact (sty : style) (i : sec_info) : list string -> list stmt -> list stmt -> Prop :=
| gs_nil : groups_exact sty i [] [] []
| gs_cons : forall sec secs g gm b bm,
    group_exact sty i sec g gm -> groups_exact sty i secs b bm ->
    groups_exact sty i (sec :: secs) (g ++ b) (gm ++ bm).

(* the bodies of two output sections: a common prefix without input or pad (the FILL), then the groups *)
Definition body_exact (sty : style) (i : sec_info) (b bm : list stmt) : Prop :=
  exists fill r rm,
    forallb frame_stmt fill = true /\ b = (fill ++ r)%list /\ bm = (fill ++ rm)%list /\
    groups_exact sty i (si_secs i) r rm.

(* statement against statement: the same statement (not an output section), or two output sections with
   the same header whose bodies are related by body_exact; the descriptions of the output sections met
   are collected *)
Inductive stmt_rel_exact (sty : style) : stmt -> stmt -> list sec_info -> Prop :=
| sre_same : forall s, is_outsec s = false -> stmt_rel_exact sty s s []
| sre_outsec : forall name addr at_ noload sub b bm i,
    body_exact sty i b bm ->
    stmt_rel_exact sty (SOutSec name addr at_ noload sub b) (SOutSec name addr at_ noload sub bm) [i].

(* list against list, position by position *)
Inductive stmts_rel_exact (sty : style) : list stmt -> list stmt -> list sec_info -> Prop :=
| sres_nil : stmts_rel_exact sty [] [] []
| sres_cons : forall s sm o l lm ol,
    stmt_rel_exact sty s sm o -> stmts_rel_exact sty l lm ol ->
    stmts_rel_exact sty (s :: l) (sm :: lm) (o ++ ol)%list.

(* ---------- the descriptions of the output sections of a document ---------- *)

(* the path the main script shows for an object [p] given relative to base_path ("" when a path does
   not escape: then no group exists and the value is not used) *)
Definition obj_shown (rt : runtime) (st : settings) (p : string) : string :=
  match escape_path rt (base_path st), escape_path rt p with
  | Ok b0, Ok pe => display (push b0 pe)
  | _, _ => ""
  end.

Definition seg_info (rt : runtime) (st : settings) (p : string) (seg : segment) (noload : bool) : sec_info :=
  SecInfo (obj_shown rt st p) (wildcard_sections seg)
          (if noload then noload_sections seg else alloc_sections seg)
          (segment_offset_names rt seg).

(* one included segment: its allocatable output section, then its noload one *)
Definition seg_infos (rt : runtime) (st : settings) (folder : string) (seg : segment) : list sec_info :=
  [seg_info rt st (partial_object folder seg) seg false; seg_info rt st (partial_object folder seg) seg true].

Definition doc_infos (d : document) (rt : runtime) (folder : string) : list sec_info :=
  flat_map (seg_infos rt (doc_settings d) folder) (included rt (doc_segments d)).

(* ---------- what the relation says in terms of deletions ---------- *)

(* [removed P l l']: [l'] is [l] with some statements that satisfy [P] deleted, order kept *)
Inductive removed (P : stmt -> Prop) : list stmt -> list stmt -> Prop :=
| rmv_nil : removed P [] []
| rmv_keep : forall s l l', removed P l l' -> removed P (s :: l) (s :: l')
| rmv_drop : forall s l l', P s -> removed P l l' -> removed P (s :: l) l'.

(* the definitions "x = value" among file statements *)
Definition file_defs (l : list stmt) : list string :=
  flat_map (fun s => match s with SAssign _ _ _ n _ => [n] | _ => [] end) l.

(* ---------- sample: the old relation does not see an alignment value ---------- *)

Definition ex_align_ordinary : stmt :=
  SOutSec ".boot" None None false None [SAlign "." 8; SInput false "a.o" None ".text" true].
Definition ex_align_main : stmt :=
  SOutSec ".boot" None None false None [SAlign "." 16; SInput false "segments/boot.o" None ".text" true].

(* helpers of the examples: the body of the output section called [name]; the ALIGN statements *)
Definition body_of (name : string) (l : list stmt) : list stmt :=
  flat_map (fun s => match s with
                     | SOutSec n _ _ _ _ b => if String.eqb n name then b else []
                     | _ => []
                     end) l.
Definition is_align (s : stmt) : bool := match s with SAlign _ _ => true | _ => false end.
Definition info_tuple (i : sec_info) := (si_obj i, si_wild i, si_secs i, si_offs i).
