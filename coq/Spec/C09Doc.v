(* C09Doc - C09 (requested alignments hold in the linked image) at DOCUMENT level: what the alignment
   options of every included segment of a whole generated script (multi-segment mode) mean in the
   state LdSem reaches at the end of a pass.  Declarative definitions only. *)
From Slinky Require Import Model.Types Model.Runtime Model.Style Model.Script Model.Writer Model.LdSem.
From Slinky Require Import Spec.C18 Spec.C04 Spec.C03 Spec.C05 Spec.C09 Spec.C10 Spec.DocLevel.
From Coq Require Import ZArith.
Local Open Scope string_scope.
Local Open Scope Z_scope.

(* "x honours the optional alignment a": x is a multiple of align_z a (Spec/C04.v: the value, 1 for
   null / absent).  ALIGN(0) is a no-op for ld (align_up x 0 = x), hence the guard: the value 0 requests
   nothing, like null. *)
Definition aligned_to (a : option N) (x : Z) : Prop := 0 < align_z a -> (align_z a | x).

(* two optional alignments requested for the same boundary do not fight: one divides the other
   (always so for powers of two); nothing to ask when one of them is absent *)
Definition opt_compatible (a b : option N) : Prop :=
  match a, b with
  | Some x, Some y => compatible (Z.of_N x) (Z.of_N y)
  | _, _ => True
  end.

Definition pow2 (z : Z) : Prop := exists k : nat, z = 2 ^ Z.of_nat k.

Definition pow2_opt (a : option N) : Prop :=
  match a with Some n => pow2 (Z.of_N n) | None => True end.

(* ---------- 1. the segment: ROM start / ROM end / VRAM end ---------- *)

(* in the state [st']: the allocatable output section .seg is loaded at X_ROM_START, a multiple of
   segment_start_align; X_ROM_END and X_VRAM_END are multiples of segment_end_align *)
Definition SegmentAligned (sty : style) (st' : lstate) (seg : segment) : Prop :=
  exists o rs re ve,
    find_sec (alloc_name seg) (l_secs st') = Some o /\
    os_lma o = Some rs /\
    val st' (segment_rom_start sty (sg_name seg)) = Some rs /\
    val st' (segment_rom_end sty (sg_name seg)) = Some re /\
    val st' (segment_vram_end sty (sg_name seg)) = Some ve /\
    aligned_to (segment_start_align seg) rs /\
    aligned_to (segment_end_align seg) re /\
    aligned_to (segment_end_align seg) ve.

(* a segment placed by default: no address field, it starts where the previous one ended *)
Definition default_placed (seg : segment) : Prop :=
  sg_fixed_vram seg = None /\ sg_fixed_symbol seg = None /\ sg_follows_segment seg = None /\
  sg_vram_class seg = None.

(* the start alignment does not fight with the alignment ld itself gives to the output section: the
   largest input-section alignment of the object universe [u] and SUBALIGN *)
Definition start_align_compatible (seg : segment) (u : list usec) : Prop :=
  Forall (fun x => compatible (align_z (segment_start_align seg)) (u_align x)) u /\
  opt_compatible (segment_start_align seg) (subalign seg).

Definition DefaultVramAligned (st' : lstate) (seg : segment) : Prop :=
  exists o, find_sec (alloc_name seg) (l_secs st') = Some o /\
            aligned_to (segment_start_align seg) (os_vma o).

(* ---------- 2. the section groups ---------- *)

(* the group of section [sec] of segment [seg], read in the symbol table [syms]; [base] is the start
   address of the segment part (output section) that contains it.  The per-section entries of
   sections_start_alignment / sections_end_alignment always hold; section_start_align /
   section_end_align hold when compatible with that entry (the ALIGN of the entry comes second) *)
Definition GroupAligned (sty : style) (syms : list (string * Z)) (seg : segment) (base : Z) (sec : string) : Prop :=
  exists S E,
    lookup (segment_section_start sty (sg_name seg) sec) syms = Some S /\
    lookup (segment_section_end sty (sg_name seg) sec) syms = Some E /\
    aligned_to (lookup sec (sections_start_alignment seg)) (S - base) /\
    (opt_compatible (section_start_align seg) (lookup sec (sections_start_alignment seg)) ->
     aligned_to (section_start_align seg) (S - base)) /\
    aligned_to (lookup sec (sections_end_alignment seg)) (E - base) /\
    (opt_compatible (section_end_align seg) (lookup sec (sections_end_alignment seg)) ->
     aligned_to (section_end_align seg) (E - base)).

(* both parts of one segment in the state [st'] *)
Definition SegmentGroupsAligned (sty : style) (st' : lstate) (seg : segment) : Prop :=
  (exists o, find_sec (alloc_name seg) (l_secs st') = Some o /\
             Forall (GroupAligned sty (l_syms st') seg (os_vma o)) (alloc_sections seg)) /\
  (exists o, find_sec (noload_name seg) (l_secs st') = Some o /\
             Forall (GroupAligned sty (l_syms st') seg (os_vma o)) (noload_sections seg)).

(* every alignment value of the groups of [seg] is a power of two *)
Definition group_aligns_pow2 (seg : segment) : Prop :=
  pow2_opt (section_start_align seg) /\ pow2_opt (section_end_align seg) /\
  Forall (fun p => pow2 (Z.of_N (snd p))) (sections_start_alignment seg) /\
  Forall (fun p => pow2 (Z.of_N (snd p))) (sections_end_alignment seg).

(* all four requests hold *)
Definition GroupAlignedAll (sty : style) (syms : list (string * Z)) (seg : segment) (base : Z) (sec : string) : Prop :=
  exists S E,
    lookup (segment_section_start sty (sg_name seg) sec) syms = Some S /\
    lookup (segment_section_end sty (sg_name seg) sec) syms = Some E /\
    aligned_to (lookup sec (sections_start_alignment seg)) (S - base) /\
    aligned_to (section_start_align seg) (S - base) /\
    aligned_to (lookup sec (sections_end_alignment seg)) (E - base) /\
    aligned_to (section_end_align seg) (E - base).

Definition SegmentGroupsAlignedAll (sty : style) (st' : lstate) (seg : segment) : Prop :=
  (exists o, find_sec (alloc_name seg) (l_secs st') = Some o /\
             Forall (GroupAlignedAll sty (l_syms st') seg (os_vma o)) (alloc_sections seg)) /\
  (exists o, find_sec (noload_name seg) (l_secs st') = Some o /\
             Forall (GroupAlignedAll sty (l_syms st') seg (os_vma o)) (noload_sections seg)).

(* ---------- 3. SUBALIGN ---------- *)

(* the output sections "sect 0 : { *(sect) }" the end of SECTIONS makes for the allow-lists *)
Definition single_entry_names (stg : settings) : list string :=
  (sections_allowlist stg ++ sections_allowlist_extra stg)%list.

(* no allow-listed section is called like one of the two output sections of [seg] *)
Definition outsecs_not_allowlisted (stg : settings) (seg : segment) : Prop :=
  ~ In (alloc_name seg) (single_entry_names stg) /\ ~ In (noload_name seg) (single_entry_names stg).

(* every input section placed in .seg or .seg.noload sits at a multiple of subalign *)
Definition SubalignHolds (st' : lstate) (seg : segment) : Prop :=
  forall p, In p (l_placed st') ->
            pl_outsec p = alloc_name seg \/ pl_outsec p = noload_name seg ->
            aligned_to (subalign seg) (pl_addr p).

(* ---------- sample data: every alignment option in use ---------- *)

(* SUBALIGN 16; segment 4096 / 64; groups 32 / 16, .data additionally 8 at its start and 64 at its end *)
Definition c9_segment (name : string) (files : list file_info) : segment :=
  Segment name files None None None None "src" None no_conds [".text"; ".data"] [".bss"] (Some 16%N)
          (Some 4096%N) (Some 64%N) (Some 32%N) (Some 16%N) [(".data", 8%N)] [(".data", 64%N)] true None [] KAbsent.

Definition c9_doc : document :=
  Document ex_settings []
    [c9_segment "boot" [ex_obj "boot.o"]; c9_segment "main" [ex_obj "a.o"; ex_obj "b.o"]]
    None [] [] [].

Definition c9_script : list stmt :=
  match gen_normal c9_doc ex_rt with Ok w => wo_script w | Err _ => [] end.

Definition c9_universe : list usec :=
  [USec "build/src/boot.o" None ".text" 40 4 false "boot_text";
   USec "build/src/boot.o" None ".data" 12 8 false "boot_data";
   USec "build/src/boot.o" None ".bss" 100 8 true "boot_bss";
   USec "build/src/a.o" None ".text" 24 4 false "a_text";
   USec "build/src/a.o" None ".bss" 8 4 true "a_bss";
   USec "build/src/b.o" None ".text" 48 4 false "b_text";
   USec "build/src/b.o" None ".data" 20 4 false "b_data";
   USec "build/src/b.o" None ".bss" 4 4 true "b_bss"].

(* a document whose allow-list names the output section of a segment: the hypothesis of
   C09_document_subalign that cannot be dropped *)
Definition c9_bad_settings : settings :=
  Settings "build" Splat None None None None "char" true [".boot"] [] [] false false None None
           [".text"; ".data"] [".bss"] None None None None None [] [] true None [].

Definition c9_bad_doc : document :=
  Document c9_bad_settings []
    [c9_segment "boot" [ex_obj "boot.o"]] None [] [] [].

Definition c9_bad_script : list stmt :=
  match gen_normal c9_bad_doc ex_rt with Ok w => wo_script w | Err _ => [] end.

(* two input sections called .boot, which only the allow-list entry selects *)
Definition c9_bad_universe : list usec :=
  [USec "build/src/boot.o" None ".text" 40 4 false "boot_text";
   USec "build/src/other.o" None ".boot" 4 4 false "stray1";
   USec "build/src/other2.o" None ".boot" 4 4 false "stray2"].
