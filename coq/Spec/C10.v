(* C10 - vram classes: declarative definitions. *)
From Slinky Require Import Model.Types Model.Runtime Model.Style Model.Script Model.Writer Model.LdSem.
From Slinky Require Import Spec.C04.
Local Open Scope string_scope.

(* the class statements an included segment is preceded by: the start statements of its class when no
   earlier segment has caused them to be emitted, nothing otherwise *)
Definition class_prefix (stg : settings) (classes : list vram_class) (seg : segment) (emitted : list string)
  : list stmt :=
  match sg_vram_class seg with
  | Some cn =>
      if mem_str cn emitted then []
      else match class_get classes cn with
           | Some c => class_start_stmts stg c cn
           | None => []
           end
  | None => []
  end.

(* the classes marked as emitted after the segment *)
Definition emitted_after (seg : segment) (emitted : list string) : list string :=
  match sg_vram_class seg with
  | Some cn => if mem_str cn emitted then emitted else cn :: emitted
  | None => emitted
  end.

(* some included segment of the list names the class *)
Definition names_class (rt : runtime) (cn : string) (segs : list segment) : bool :=
  existsb (fun seg => should_emit rt (sg_conds seg) && opt_eqb_str (sg_vram_class seg) (Some cn)) segs.

(* the statement every emitted class ends its start block with *)
Definition class_end_init (sty : style) (cn : string) : stmt :=
  linker_symbol (vram_class_end sty cn) (EHex8 0).

(* the statement by which a member segment raises the end of its class *)
Definition class_end_max (sty : style) (cn : string) (seg : segment) : stmt :=
  SMaxSelf (vram_class_end sty cn) (segment_vram_end sty (sg_name seg)).

(* the statements of a member segment up to the class-end update *)
Definition seg_foot_main (stg : settings) (seg : segment) : list stmt :=
  let sty := linker_symbols_style stg in
  let name := sg_name seg in
  ([SRomAdd ("." ++ name)] ++
   (match segment_end_align seg with
    | Some a => [SAlign "__romPos" a; SAlign "." a] | None => [] end) ++
   sym_end_size (segment_vram_start sty name) (segment_vram_end sty name)
                (segment_vram_size sty name) EDot ++
   sym_end_size (segment_rom_start sty name) (segment_rom_end sty name)
                (segment_rom_size sty name) (ESym "__romPos"))%list.

(* ---------- the end of a class over all its members ---------- *)

Definition is_member (rt : runtime) (cn : string) (seg : segment) : bool :=
  should_emit rt (sg_conds seg) && opt_eqb_str (sg_vram_class seg) (Some cn).

Definition members (rt : runtime) (cn : string) (segs : list segment) : list segment :=
  filter (is_member rt cn) segs.

(* the two shapes of statement by which slinky assigns a class end symbol: "END = 0x00000000" and
   "END = MAX(END, x)" *)
Definition end_shape (END : string) (s : stmt) : bool :=
  match s with
  | SAssign false false true sym (EHex8 0) => String.eqb sym END
  | SMaxSelf sym _ => String.eqb sym END
  | _ => false
  end.

(* every statement of the list that assigns END has one of these shapes *)
Definition end_clean (END : string) (l : list stmt) : bool :=
  forallb (fun s => negb (assigns END s) || end_shape END s) l.
