(* C01 / C02 - what one entry of a segment contributes to the group of a section: a declarative,
   non-fuelled description (used by both properties). *)
From Slinky Require Import Model.Types Model.Runtime Model.Style Model.Script Model.Writer Model.LdSem.
From Coq Require Import ZArith Permutation.
Local Open Scope string_scope.

(* ---------- the entries that name input files ---------- *)

(* included object / archive entries, depth-first; an excluded group drops its subtree.  Each leaf
   comes with the directory accumulated from the groups above it and with the chain of entries from
   the top-level entry down to the leaf itself *)
Fixpoint leaves (rt : runtime) (base : string) (f : file_info)
  : list (file_info * string * list file_info) :=
  match f with
  | FileInfo _ k _ _ _ _ _ files d c _ =>
      if should_emit rt c then
        match k with
        | KObject | KArchive => [(f, base, [f])]
        | KGroup =>
            match escape_path rt d with
            | Ok d' => map (fun x => (fst (fst x), snd (fst x), f :: snd x))
                           (flat_map (leaves rt (push base d')) files)
            | Err _ => []
            end
        | KPad | KLinkerOffset => []
        end
      else []
  end.

(* the archive member an entry names *)
Definition member_of (f : file_info) : option string :=
  match fi_kind f with KArchive => Some (fi_subfile f) | _ => None end.

Section Entry.
  Variable rt : runtime.
  Variable sty : style.
  Variable cfg : wcfg.
  Variable seg : segment.
  Variable sections : list string.      (* the list of the half being written *)

  (* the sections of file f that are emitted in the group of [section]: the section itself unless
     f's section_order sends it elsewhere, and the sections f's section_order sends here *)
  Definition here (f : file_info) (section : string) : list string := sections_here f section sections.

  (* the sub-group sections listed under k in the segment (none when the script references partial
     objects) *)
  Definition members (k : string) : list string :=
    if reference_partial cfg then [] else
    match lookup k (sections_subgroups seg) with Some others => others | None => [] end.

  (* the sub-group sections that follow k for entry f: [members k] when f is not a group; none for a
     group (its entries expand the sub-groups, each for itself, so the group adds no expansion of its
     own) *)
  Definition entry_members (f : file_info) (k : string) : list string :=
    match fi_kind f with KGroup => [] | _ => members k end.

  (* the sections emitted for file f when the group of [section] is written, in order: every k of
     [here f section] directly followed by the expansion of its sub-group members (for a group
     entry: [here f section] alone) *)
  Inductive Expands (f : file_info) : string -> list string -> Prop :=
  | Exp_section section l : ExpandsKeys f (here f section) l -> Expands f section l
  with ExpandsKeys (f : file_info) : list string -> list string -> Prop :=
  | Exp_nil : ExpandsKeys f [] []
  | Exp_key k ks l1 l2 :
      ExpandsMembers f (entry_members f k) l1 -> ExpandsKeys f ks l2 -> ExpandsKeys f (k :: ks) (k :: l1 ++ l2)
  with ExpandsMembers (f : file_info) : list string -> list string -> Prop :=
  | Exp_mnil : ExpandsMembers f [] []
  | Exp_member s ss l1 l2 :
      Expands f s l1 -> ExpandsMembers f ss l2 -> ExpandsMembers f (s :: ss) (l1 ++ l2).

  (* what an entry that is not a group writes for section k: objects and archive members one input
     statement, pads and linker offsets their statement iff k is their own section *)
  Definition own_stmts (f : file_info) (k base : string) : list stmt :=
    match fi_kind f with
    | KObject =>
        match escape_path rt (fi_path f) with
        | Ok p => [SInput (keeps (fi_keep f) k) (display (push base p)) None k (wildcard_sections seg)]
        | Err _ => []
        end
    | KArchive =>
        match escape_path rt (fi_path f) with
        | Ok p => [SInput (keeps (fi_keep f) k) (display (push base p)) (Some (fi_subfile f)) k
                          (wildcard_sections seg)]
        | Err _ => []
        end
    | KPad => if String.eqb (fi_section f) k then [SDotAdd (fi_pad_amount f)] else []
    | KLinkerOffset =>
        if String.eqb (fi_section f) k
        then [SAssign false false true (linker_offset sty (fi_linker_offset_name f)) EDot] else []
    | KGroup => []
    end.

  Definition path_ok (f : file_info) : Prop :=
    match fi_kind f with
    | KObject | KArchive => exists p, escape_path rt (fi_path f) = Ok p
    | _ => True
    end.

  (* the statements of entry f in the group of [section]:
     - an entry: for every section k of its expansion, in order, the statements of f for k;
     - an excluded entry: nothing; an included object, archive member, pad, linker offset: own_stmts;
     - an included group: its children in list order, each asked for k, under the group's directory *)
  Inductive EntryStmts : file_info -> string -> string -> list stmt -> Prop :=
  | ES_entry f section base keys l :
      Expands f section keys -> KeysStmts f keys base l -> EntryStmts f section base l
  with KeysStmts : file_info -> list string -> string -> list stmt -> Prop :=
  | KS_nil f base : KeysStmts f [] base []
  | KS_cons f k ks base l1 l2 :
      FileStmts f k base l1 -> KeysStmts f ks base l2 -> KeysStmts f (k :: ks) base (l1 ++ l2)
  with FileStmts : file_info -> string -> string -> list stmt -> Prop :=
  | FS_excluded f k base : should_emit rt (fi_conds f) = false -> FileStmts f k base []
  | FS_leaf f k base :
      should_emit rt (fi_conds f) = true -> fi_kind f <> KGroup -> path_ok f ->
      FileStmts f k base (own_stmts f k base)
  | FS_group f k base d l :
      should_emit rt (fi_conds f) = true -> fi_kind f = KGroup -> escape_path rt (fi_dir f) = Ok d ->
      KidsStmts (fi_files f) k (push base d) l -> FileStmts f k base l
  with KidsStmts : list file_info -> string -> string -> list stmt -> Prop :=
  | Kids_nil k base : KidsStmts [] k base []
  | Kids_cons c r k base l1 l2 :
      EntryStmts c k base l1 -> KidsStmts r k base l2 -> KidsStmts (c :: r) k base (l1 ++ l2).

  (* ---------- which section names can appear ---------- *)

  (* m is emitted for f when the group of a is written: m is in [here f a], or is reached from a
     sub-group member of such a section *)
  Inductive Reaches (f : file_info) : string -> string -> Prop :=
  | Reach_here a k : In k (here f a) -> Reaches f a k
  | Reach_member a k s m : In k (here f a) -> In s (entry_members f k) -> Reaches f s m -> Reaches f a m.

  (* through a chain of entries (the groups above a leaf, then the leaf): each entry is asked for a
     section its parent emits *)
  Fixpoint reach_via (chain : list file_info) (a b : string) : Prop :=
    match chain with
    | [] => a = b
    | f :: r => exists m, Reaches f a m /\ reach_via r m b
    end.

  (* the input statement [s] names leaf c (under directory b) and section sect *)
  Definition names_leaf (c : file_info) (b : string) (sect : string) (s : stmt) : Prop :=
    exists p, escape_path rt (fi_path c) = Ok p /\
              s = SInput (keeps (fi_keep c) sect) (display (push b p)) (member_of c) sect (wildcard_sections seg).
End Entry.

(* [here], spelled out: the section itself unless section_order redirects it, plus the keys that
   section_order sends to it *)
Definition here_spec (f : file_info) (section k : string) : Prop :=
  match fi_section_order f with
  | [] => k = section
  | so => (k = section /\ lookup section so = None) \/ In (k, section) so
  end.

(* the input statements of a list *)
Definition is_input (s : stmt) : bool := match s with SInput _ _ _ _ _ => true | _ => false end.
Definition inputs_of (l : list stmt) : list stmt := filter is_input l.

Definition input_section (s : stmt) : string := match s with SInput _ _ _ sect _ => sect | _ => "" end.

(* ---------- well-formed section configuration (for "exactly once") ---------- *)

(* the closure of a list of sections under sub-groups (as the writer follows them: not at all when
   the script references partial objects) *)
Inductive InClosure (cfg : wcfg) (seg : segment) (U : list string) : string -> Prop :=
| IC_base k : In k U -> InClosure cfg seg U k
| IC_member k m : InClosure cfg seg U k -> In m (members cfg seg k) -> InClosure cfg seg U m.

Definition configured (seg : segment) : list string := (alloc_sections seg ++ noload_sections seg)%list.

(* sub-groups form a forest hanging below the configured sections: the configured sections are
   pairwise different, no section is a member twice (of one or of two sub-groups), no member is itself
   configured, and following members always terminates (a rank decreases) *)
Definition WF_subgroups (seg : segment) : Prop :=
  NoDup (configured seg) /\
  NoDup (flat_map snd (sections_subgroups seg)) /\
  (forall m, In m (flat_map snd (sections_subgroups seg)) -> ~ In m (configured seg)) /\
  exists rank : string -> nat,
    forall k others m, lookup k (sections_subgroups seg) = Some others -> In m others -> (rank m < rank k)%nat.

(* a file's section_order only moves configured sections to configured sections, each key once *)
Definition WF_section_order (seg : segment) (f : file_info) : Prop :=
  NoDup (map fst (fi_section_order f)) /\
  forall k d, In (k, d) (fi_section_order f) -> In k (configured seg) /\ In d (configured seg).

(* ... for an entry and, when it is a group, for every entry below it *)
Fixpoint WF_section_order_deep (seg : segment) (f : file_info) : Prop :=
  WF_section_order seg f /\
  (fix all (l : list file_info) : Prop :=
     match l with
     | [] => True
     | c :: r => WF_section_order_deep seg c /\ all r
     end) (fi_files f).

(* [part] is exactly one input statement for every section of the closure of the configured sections,
   each naming the leaf (an included object / archive entry with the directory accumulated from the
   groups above it, as listed by [leaves]) *)
Definition leaf_once (rt : runtime) (cfg : wcfg) (seg : segment)
           (leaf : file_info * string * list file_info) (part : list stmt) : Prop :=
  let '(c, b, _) := leaf in
  NoDup (map input_section part) /\
  (forall k, In k (map input_section part) <-> InClosure cfg seg (configured seg) k) /\
  Forall (fun st => names_leaf rt seg c b (input_section st) st) part.

(* ---------- output sections of a script ---------- *)

Definition outsec_names (l : list stmt) : list string :=
  flat_map (fun s => match s with SOutSec n _ _ _ _ _ => [n] | _ => [] end) l.

(* ---------- link level: every input section is in exactly one place ---------- *)

(* the markers of the input sections that are placed, discarded, or still waiting *)
Definition all_markers (st : lstate) : list string :=
  (map pl_marker (l_placed st) ++ l_discarded st ++ map u_marker (l_remaining st))%list.

(* ---------- sample data ---------- *)

Definition c01_obj (p : string) (so : pairs) : file_info :=
  FileInfo p KObject "" 0%N "" "" so [] "" no_conds KAbsent.

Definition c01_group (dir : string) (files : list file_info) : file_info :=
  FileInfo "" KGroup "" 0%N "" "" [] files dir no_conds KAbsent.

Definition c01_settings (alloc noload : list string) (subs : list (string * list string)) : settings :=
  Settings "" Splat None None None None "char" true [] [] [] false false None None
           alloc noload None None None None None [] [] false None subs.

Definition c01_seg (files : list file_info) (alloc noload : list string)
           (subs : list (string * list string)) : segment :=
  Segment "s" files None None None None "" None no_conds alloc noload None
          None None None None [] [] false None subs KAbsent.

Definition c01_doc (files : list file_info) (alloc noload : list string)
           (subs : list (string * list string)) : document :=
  Document (c01_settings alloc noload subs) [] [c01_seg files alloc noload subs] None [] [] [].

Definition c01_rt : runtime := Runtime [] false.

(* the input statements of the SECTIONS block of a script, looking inside output sections *)
Fixpoint deep_inputs (s : stmt) : list stmt :=
  match s with
  | SInput _ _ _ _ _ => [s]
  | SOutSec _ _ _ _ _ body => flat_map deep_inputs body
  | SSections body => flat_map deep_inputs body
  | _ => []
  end.

Definition script_inputs (l : list stmt) : list string :=
  flat_map (fun s => flat_map (fun i => match i with
                                        | SInput _ p _ sect _ => [p ++ "(" ++ sect ++ ")"]
                                        | _ => [] end) (deep_inputs s)) l.
