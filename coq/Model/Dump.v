(* Canonical JSON rendering of the model's observable results, compared with what the Rust harness
   prints for the implementation.  Pure printing; nothing here is used by a theorem. *)
From Slinky Require Import Model.Types Model.Parse Model.Runtime Model.Script Model.Writer Model.Exports.
Local Open Scope string_scope.

Definition hex2 (n : nat) : string :=
  String (hex_digit (N.of_nat (n / 16))) (String (hex_digit (N.of_nat (n mod 16))) "").

Fixpoint json_escape (s : string) : string :=
  match s with
  | EmptyString => ""
  | String c r =>
      let n := nat_of_ascii c in
      (if Nat.eqb n 34 then "\"""
       else if Nat.eqb n 92 then "\\"
       else if Nat.ltb n 32 then "\u00" ++ hex2 n
       else String c "") ++ json_escape r
  end.

Definition jstr (s : string) : string := """" ++ json_escape s ++ """".
Definition jbool (b : bool) : string := if b then "true" else "false".
Definition jN (n : N) : string := dec_of_N n.
Definition jZ (z : Z) : string := dec_of_Z z.
Definition jlist {A} (f : A -> string) (l : list A) : string := "[" ++ join "," (map f l) ++ "]".
Definition jopt {A} (f : A -> string) (o : option A) : string :=
  match o with Some x => f x | None => "null" end.
Definition jobj (l : list (string * string)) : string :=
  "{" ++ join "," (map (fun kv => jstr (fst kv) ++ ":" ++ snd kv) l) ++ "}".
Definition jmap {A} (f : A -> string) (l : list (string * A)) : string :=
  jobj (map (fun kv => (fst kv, f (snd kv))) l).
Definition jpairs (l : pairs) : string := jlist (fun kv => jlist jstr [fst kv; snd kv]) l.

Definition jkeep (k : keep) : string :=
  match k with
  | KAbsent => jstr "absent"
  | KAll b => jbool b
  | KWhich l => jlist jstr l
  end.

Definition jconds (c : conds) : list (string * string) :=
  [("include_if_any", jpairs (inc_any c)); ("include_if_all", jpairs (inc_all c));
   ("exclude_if_any", jpairs (exc_any c)); ("exclude_if_all", jpairs (exc_all c))].

Definition jkind (k : file_kind) : string :=
  jstr (match k with KObject => "object" | KArchive => "archive" | KPad => "pad"
                | KLinkerOffset => "linker_offset" | KGroup => "group" end).

Fixpoint jfile (f : file_info) : string :=
  jobj ([("path", jstr (fi_path f)); ("kind", jkind (fi_kind f)); ("subfile", jstr (fi_subfile f));
         ("pad_amount", jN (fi_pad_amount f)); ("section", jstr (fi_section f));
         ("linker_offset_name", jstr (fi_linker_offset_name f));
         ("section_order", jmap jstr (fi_section_order f));
         ("files", ("[" ++ join "," (map jfile (fi_files f)) ++ "]")%string);
         ("dir", jstr (fi_dir f))] ++ jconds (fi_conds f) ++ [("keep_sections", jkeep (fi_keep f))])%list.

Definition jgp (g : gp_info) : string :=
  jobj ([("section", jstr (gp_section g)); ("offset", jZ (gp_offset g));
         ("provide", jbool (gp_provide g)); ("hidden", jbool (gp_hidden g))] ++ jconds (gp_conds g))%list.

Definition jstyle (s : style) : string := jstr (match s with Splat => "splat" | Makerom => "makerom" end).

Definition jsettings (s : settings) : string :=
  jobj [("base_path", jstr (base_path s)); ("linker_symbols_style", jstyle (linker_symbols_style s));
        ("hardcoded_gp_value", jopt jN (hardcoded_gp_value s));
        ("d_path", jopt jstr (d_path s)); ("target_path", jopt jstr (target_path s));
        ("symbols_header_path", jopt jstr (symbols_header_path s));
        ("symbols_header_type", jstr (symbols_header_type s));
        ("symbols_header_as_array", jbool (symbols_header_as_array s));
        ("sections_allowlist", jlist jstr (sections_allowlist s));
        ("sections_allowlist_extra", jlist jstr (sections_allowlist_extra s));
        ("sections_denylist", jlist jstr (sections_denylist s));
        ("discard_wildcard_section", jbool (discard_wildcard_section s));
        ("single_segment_mode", jbool (single_segment_mode s));
        ("partial_scripts_folder", jopt jstr (partial_scripts_folder s));
        ("partial_build_segments_folder", jopt jstr (partial_build_segments_folder s));
        ("alloc_sections", jlist jstr (st_alloc_sections s));
        ("noload_sections", jlist jstr (st_noload_sections s));
        ("subalign", jopt jN (st_subalign s));
        ("segment_start_align", jopt jN (st_segment_start_align s));
        ("segment_end_align", jopt jN (st_segment_end_align s));
        ("section_start_align", jopt jN (st_section_start_align s));
        ("section_end_align", jopt jN (st_section_end_align s));
        ("sections_start_alignment", jmap jN (st_sections_start_alignment s));
        ("sections_end_alignment", jmap jN (st_sections_end_alignment s));
        ("wildcard_sections", jbool (st_wildcard_sections s));
        ("fill_value", jopt jN (st_fill_value s));
        ("sections_subgroups", jmap (jlist jstr) (st_sections_subgroups s))].

Definition jsegment (s : segment) : string :=
  jobj ([("name", jstr (sg_name s)); ("files", jlist jfile (sg_files s));
         ("fixed_vram", jopt jN (sg_fixed_vram s)); ("fixed_symbol", jopt jstr (sg_fixed_symbol s));
         ("follows_segment", jopt jstr (sg_follows_segment s)); ("vram_class", jopt jstr (sg_vram_class s));
         ("dir", jstr (sg_dir s)); ("gp_info", jopt jgp (sg_gp_info s))] ++ jconds (sg_conds s) ++
        [("alloc_sections", jlist jstr (alloc_sections s));
         ("noload_sections", jlist jstr (noload_sections s));
         ("subalign", jopt jN (subalign s));
         ("segment_start_align", jopt jN (segment_start_align s));
         ("segment_end_align", jopt jN (segment_end_align s));
         ("section_start_align", jopt jN (section_start_align s));
         ("section_end_align", jopt jN (section_end_align s));
         ("sections_start_alignment", jmap jN (sections_start_alignment s));
         ("sections_end_alignment", jmap jN (sections_end_alignment s));
         ("wildcard_sections", jbool (wildcard_sections s));
         ("fill_value", jopt jN (fill_value s));
         ("sections_subgroups", jmap (jlist jstr) (sections_subgroups s));
         ("keep_sections", jkeep (sg_keep s))])%list.

Definition jclass (c : vram_class) : string :=
  jobj [("name", jstr (vc_name c)); ("fixed_vram", jopt jN (vc_fixed_vram c));
        ("fixed_symbol", jopt jstr (vc_fixed_symbol c));
        ("follows_classes", jlist jstr (vc_follows_classes c));
        ("keep_sections", jkeep (vc_keep c))].

Definition jassign (a : symbol_assignment) : string :=
  jobj ([("name", jstr (sa_name a)); ("value", jstr (sa_value a));
         ("provide", jbool (sa_provide a)); ("hidden", jbool (sa_hidden a))] ++ jconds (sa_conds a))%list.

Definition jrequired (r : required_symbol) : string :=
  jobj (("name", jstr (rq_name r)) :: jconds (rq_conds r)).

Definition jassert (a : assert_entry) : string :=
  jobj ([("check", jstr (ae_check a)); ("error_message", jstr (ae_error_message a))] ++ jconds (ae_conds a))%list.

Definition jdocument (d : document) : string :=
  jobj [("settings", jsettings (doc_settings d));
        ("vram_classes", jlist jclass (doc_vram_classes d));
        ("segments", jlist jsegment (doc_segments d));
        ("entry", jopt jstr (doc_entry d));
        ("symbol_assignments", jlist jassign (doc_symbol_assignments d));
        ("required_symbols", jlist jrequired (doc_required_symbols d));
        ("asserts", jlist jassert (doc_asserts d))].

Definition jerr (e : err) : string :=
  jstr (match e with
        | EYaml => "FailedYamlParsing"
        | ENullOnNonNull n => "NullValueOnNonNull(" ++ n ++ ")"
        | EEmptyValue n => "EmptyValue(" ++ n ++ ")"
        | EInvalidFieldCombo a b => "InvalidFieldCombo(" ++ a ++ "," ++ b ++ ")"
        | EMissingRequiredField n => "MissingRequiredField(" ++ n ++ ")"
        | EMissingRequiredFieldCombo a b => "MissingRequiredFieldCombo(" ++ a ++ "," ++ b ++ ")"
        | EMissingAnyOfOptionalFields f => "MissingAnyOfOptionalFields(" ++ f ++ ")"
        | ECustomOptionNotProvided p o => "CustomOptionInPathNotProvided(" ++ p ++ "," ++ o ++ ")"
        | EMissingSectionForSegment f s g => "MissingSectionForSegment(" ++ f ++ "," ++ s ++ "," ++ g ++ ")"
        | EMissingVramClassForSegment s c => "MissingVramClassForSegment(" ++ s ++ "," ++ c ++ ")"
        | EInvalidSegmentCount n =>
            "OTHER(`single_segment_mode` requires exactly one segment, but " ++ dec_of_nat n ++ " were given)"
        | ESubgroupCycle s c =>
            "OTHER(The `sections_subgroups` of segment '" ++ s ++ "' make the section '" ++ c ++ "' contain itself)"
        | ECrash w => "CRASH(" ++ w ++ ")"
        end).

Definition jres {A} (f : A -> string) (r : res A) : string :=
  match r with
  | Ok a => jobj [("ok", f a)]
  | Err e => jobj [("err", jerr e)]
  end.

Definition jwriter (rt : runtime) (st : settings) (w : writer_out) : string :=
  jobj [("script", jstr (script_text w));
        ("paths", jlist (fun p => jstr (join "/" p)) (wo_paths w));
        ("symbols", jlist jstr (linker_symbols w));
        ("header", jstr (header_text rt st w));
        ("deps", jres (fun t => jopt (fun t => jstr (deps_text rt w t)) t)
                      (escape_opt rt (target_path st)))].

Definition jwrites (l : list write) : string :=
  jlist (fun w => jlist jstr [fst w; snd w]) l.

(* everything the library harness observes for one case *)
Definition run_case (sd : document_serial) (rt : runtime) (partial : bool) : string :=
  match parse sd with
  | Err e => jobj [("parse", jobj [("err", jerr e)])]
  | Ok d =>
      let st := doc_settings d in
      jobj [("parse", jobj [("ok", jdocument d)]);
            ("gen",
             if partial then
               jres (fun p =>
                       jobj [("main", jwriter rt st (po_main p));
                             ("subs", jlist (fun s => jlist (fun x => x)
                                                        [jstr (fst s); jwriter rt st (snd s)])
                                            (po_subs p));
                             ("joined", jstr (partial_script_text p));
                             ("files", jres jwrites
                                (do w1 <- export_script_partial rt st p "OUT.ld";
                                 do w2 <- save_other_files_partial rt st p;
                                 Ok (w1 ++ w2)%list))])
                    (gen_partial d rt)
             else
               jres (fun w =>
                       jobj [("main", jwriter rt st w);
                             ("files", jres jwrites
                                (do w2 <- save_other_files_normal rt st w;
                                 Ok (("OUT.ld", script_text w) :: w2)))])
                    (gen_normal d rt))]
  end.

Definition jcli (r : cli_result) : string :=
  match r with
  | CliResult ok out ws => jobj [("ok", jbool ok); ("stdout", jstr out); ("writes", jwrites ws)]
  end.
