(* runtime_settings.rs (should_emit_entry, escape_path) and escaped_path.rs / std::path on
   relative and absolute unix paths.  A PathBuf is modelled by its raw string. *)
From Slinky Require Import Model.Types.
Local Open Scope string_scope.

(* ---------- should_emit_entry ---------- *)

Definition pair_matches (rt : runtime) (kv : string * string) : bool :=
  match opt_get rt (fst kv) with
  | Some v => String.eqb v (snd kv)
  | None => false
  end.

Definition nonempty {A} (l : list A) : bool := match l with [] => false | _ => true end.

(* the control flow of the Rust function, with its [exit] variable *)
Definition should_emit (rt : runtime) (c : conds) : bool :=
  if existsb (pair_matches rt) (exc_any c) then false
  else if andb (nonempty (exc_all c)) (forallb (pair_matches rt) (exc_all c)) then false
  else if orb (nonempty (inc_any c)) (nonempty (inc_all c)) then
    let exit0 := false in
    let exit1 := if nonempty (inc_any c) then negb (existsb (pair_matches rt) (inc_any c)) else exit0 in
    let exit2 := if andb (orb exit1 (negb (nonempty (inc_any c)))) (nonempty (inc_all c))
                 then negb (forallb (pair_matches rt) (inc_all c)) else exit1 in
    negb exit2
  else true.

(* ---------- std::path ---------- *)

Definition is_absolute (p : string) : bool := starts_with_char "/" p.

(* Path::components / Path::iter on unix: the root, then the non-empty parts, a "." only when it
   is the first part of a relative path *)
Fixpoint drop_dots (l : list string) : list string :=
  match l with
  | [] => []
  | c :: r => if orb (is_empty c) (String.eqb c ".") then drop_dots r else c :: drop_dots r
  end.

Definition components (p : string) : list string :=
  if is_absolute p then "/" :: drop_dots (split_on "/" p)
  else match split_on "/" p with
       | [] => []
       | c :: r => ((if is_empty c then [] else [c]) ++ drop_dots r)%list
       end.

(* PathBuf::push *)
Definition push (p q : string) : string :=
  if is_absolute q then q
  else if is_empty p then q
  else if ends_with_char "/" p then p ++ q
  else p ++ "/" ++ q.

(* Display for EscapedPath: components joined by "/" *)
Definition display (p : string) : string := join "/" (components p).

(* PathBuf equality (and hashing) is component-wise *)
Definition path_eqb (p q : string) : bool :=
  if list_eq_dec string_dec (components p) (components q) then true else false.

Fixpoint path_mem (p : string) (l : list string) : bool :=
  match l with
  | [] => false
  | q :: r => if path_eqb p q then true else path_mem p r
  end.

(* ---------- escape_path ---------- *)

(* the character loop of escape_path on one component.  State: text emitted so far, whether we are
   inside a replacement, the key collected so far.  [orig] is the whole original path, reported in
   the error. *)
Fixpoint escape_scan (rt : runtime) (orig : string) (s : string)
         (out : string) (within : bool) (key : string) : res string :=
  match s with
  | EmptyString =>
      (* fix F2: an unterminated "{key" is kept literally *)
      Ok (if within then out ++ "{" ++ key else out)
  | String ch r =>
      if within then
        if Ascii.eqb ch "}" then
          match opt_get rt key with
          | Some v => escape_scan rt orig r (out ++ v) false ""
          | None => Err (ECustomOptionNotProvided orig key)
          end
        else escape_scan rt orig r out true (key ++ String ch "")
      else
        if Ascii.eqb ch "{" then escape_scan rt orig r out true ""
        else escape_scan rt orig r (out ++ String ch "") false ""
  end.

Definition inner_of (c : string) : string := substring 1 (String.length c - 2) c.

Definition escape_component (rt : runtime) (orig : string) (c : string) : res string :=
  if andb (andb (starts_with_char "{" c) (ends_with_char "}" c))
          (* fix F1: the whole-component shortcut only when the inner text has no brace *)
          (negb (orb (contains_char "{" (inner_of c)) (contains_char "}" (inner_of c))))
  then
    match opt_get rt (inner_of c) with
    | Some v => Ok v
    | None => Err (ECustomOptionNotProvided orig (inner_of c))
    end
  else if orb (negb (contains_char "{" c)) (negb (contains_char "}" c)) then Ok c
  else escape_scan rt orig c "" false "".

Fixpoint escape_components (rt : runtime) (orig : string) (l : list string) (acc : string) : res string :=
  match l with
  | [] => Ok acc
  | c :: r => do c' <- escape_component rt orig c; escape_components rt orig r (push acc c')
  end.

Definition escape_path (rt : runtime) (p : string) : res string :=
  escape_components rt p (components p) "".

Definition escape_opt (rt : runtime) (p : option string) : res (option string) :=
  match p with
  | Some p => do e <- escape_path rt p; Ok (Some e)
  | None => Ok None
  end.
