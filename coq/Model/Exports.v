(* Text exports (linker_writer.rs 195-366, partial_linker_writer.rs 102-181) and the command-line
   shell (slinky-cli/src/main.rs) over an abstract sequence of file writes. *)
From Slinky Require Import Model.Types Model.Generated Model.Parse Model.Runtime Model.Style
  Model.Script Model.Writer.
Local Open Scope string_scope.

Definition script_text (w : writer_out) : string := lines_to_text (render (wo_script w)).

(* PartialLinkerWriter::export_linker_script_to_string: main and sub-scripts joined by "\n" *)
Definition partial_script_text (p : partial_out) : string :=
  join nl (script_text (po_main p) :: map (fun s => script_text (snd s)) (po_subs p)).

(* export_dependencies_file *)
Definition deps_text (rt : runtime) (w : writer_out) (target : string) : string :=
  (if rt_emit_version_comment rt then "# " ++ version_comment_text ++ nl ++ nl else "") ++
  display target ++ ":" ++
  concat_all (map (fun p => " \" ++ nl ++ "    " ++ join "/" p) (wo_paths w)) ++
  nl ++ nl ++
  concat_all (map (fun p => join "/" p ++ ":" ++ nl) (wo_paths w)).

(* get_linker_symbols: every write_linker_symbol inserts its symbol into an IndexSet *)
Definition add_sym (s : string) (l : list string) : list string :=
  if mem_str s l then l else (l ++ [s])%list.

Fixpoint stmt_syms (s : stmt) (acc : list string) : list string :=
  match s with
  | SAssign _ _ true sym _ => add_sym sym acc
  | SOutSec _ _ _ _ _ body =>
      (fix go (l : list stmt) (acc : list string) : list string :=
         match l with [] => acc | x :: r => go r (stmt_syms x acc) end) body acc
  | SSections body =>
      (fix go (l : list stmt) (acc : list string) : list string :=
         match l with [] => acc | x :: r => go r (stmt_syms x acc) end) body acc
  | _ => acc
  end.

Definition collect_syms (l : list stmt) (acc : list string) : list string :=
  fold_left (fun a s => stmt_syms s a) l acc.

Definition linker_symbols (w : writer_out) : list string := collect_syms (wo_script w) [].

(* export_symbol_header *)
Definition header_text (rt : runtime) (st : settings) (w : writer_out) : string :=
  (if rt_emit_version_comment rt then "/* " ++ version_comment_text ++ " */" ++ nl ++ nl else "") ++
  "#ifndef HEADER_SYMBOLS_H" ++ nl ++ "#define HEADER_SYMBOLS_H" ++ nl ++ nl ++
  concat_all (map (fun s => "extern " ++ symbols_header_type st ++ " " ++ s ++
                            (if symbols_header_as_array st then "[]" else "") ++ ";" ++ nl)
                  (linker_symbols w)) ++
  nl ++ "#endif" ++ nl.

(* ---------- file exports ---------- *)

Definition write := (string * string)%type.       (* (path as given to the OS, content) *)

(* LinkerWriter::save_other_files *)
Definition save_other_files_normal (rt : runtime) (st : settings) (w : writer_out) : res (list write) :=
  do dp <- escape_opt rt (d_path st);
  do dw <-
    (match dp with
     | Some dpath =>
         do tp <- escape_opt rt (target_path st);
         match tp with
         | Some t => Ok [(dpath, deps_text rt w t)]
         | None => Ok []
         end
     | None => Ok []
     end);
  do hp <- escape_opt rt (symbols_header_path st);
  Ok (dw ++ match hp with Some h => [(h, header_text rt st w)] | None => [] end)%list.

(* PathBuf::extend with the components of another path *)
Definition extend_path (p q : string) : string := fold_left push (components q) p.

(* PartialLinkerWriter::save_other_files *)
Definition save_other_files_partial (rt : runtime) (st : settings) (p : partial_out) : res (list write) :=
  do base <- escape_path rt (base_path st);
  do pb <- escape_opt rt (partial_build_segments_folder st);
  do pbsf <- (match pb with Some x => Ok x
                          | None => Err (EMissingRequiredField "partial_build_segments_folder") end);
  do ps <- escape_opt rt (partial_scripts_folder st);
  do psf <- (match ps with Some x => Ok x
                         | None => Err (EMissingRequiredField "partial_scripts_folder") end);
  do mainw <- save_other_files_normal rt st (po_main p);
  Ok (mainw ++
      (if is_some (d_path st)
       then map (fun s =>
                   (push psf (fst s ++ ".d"),
                    deps_text rt (snd s) (push (extend_path base pbsf) (fst s ++ ".o"))))
                (po_subs p)
       else []))%list.

(* PartialLinkerWriter::export_linker_script_to_file *)
Definition export_script_partial (rt : runtime) (st : settings) (p : partial_out) (path : string)
  : res (list write) :=
  do ps <- escape_opt rt (partial_scripts_folder st);
  do psf <- (match ps with Some x => Ok x
                         | None => Err (EMissingRequiredField "partial_scripts_folder") end);
  Ok ((path, script_text (po_main p)) ::
      map (fun s => (push psf (fst s ++ ".ld"), script_text (snd s))) (po_subs p)).

(* ---------- the command-line tool ---------- *)

Record cli_args := CliArgs {
  cli_output : option string;
  cli_partial : bool;
  cli_options : list string;          (* the raw values given to -c, in order *)
  cli_omit_version_comment : bool }.

(* clap: value_delimiter = ',' then parse_key_val: split at the first '=' *)
Fixpoint split_first_eq (s : string) (acc : string) : option (string * string) :=
  match s with
  | EmptyString => None
  | String c r => if Ascii.eqb c "=" then Some (acc, r) else split_first_eq r (acc ++ String c "")
  end.

Definition parse_key_vals (raw : list string) : option pairs :=
  fold_right (fun s acc =>
                match split_first_eq s "", acc with
                | Some kv, Some l => Some (kv :: l)
                | _, _ => None
                end) (Some []) (flat_map (split_on ",") raw).

Definition ident_start (c : ascii) : bool :=
  let n := nat_of_ascii c in
  orb (orb (andb (Nat.leb 65 n) (Nat.leb n 90)) (andb (Nat.leb 97 n) (Nat.leb n 122))) (Nat.eqb n 95).

(* Regex::is_match of [a-zA-Z_][a-zA-Z0-9_]* is unanchored: some identifier-start character *)
Fixpoint key_valid (s : string) : bool :=
  match s with
  | EmptyString => false
  | String c r => orb (ident_start c) (key_valid r)
  end.

Inductive cli_result := CliResult (status_ok : bool) (stdout : string) (writes : list write).

(* main(): each failure is a panic (non-zero status); writes already performed stay *)
Definition cli_run (sd : document_serial) (a : cli_args) : cli_result :=
  match parse_key_vals (cli_options a) with
  | None => CliResult false "" []                     (* clap rejects the option *)
  | Some opts =>
    match parse sd with
    | Err _ => CliResult false "" []
    | Ok d =>
      if negb (forallb (fun kv => key_valid (fst kv)) opts) then CliResult false "" [] else
      let rt := Runtime opts (negb (cli_omit_version_comment a)) in
      let st := doc_settings d in
      if cli_partial a then
        match gen_partial d rt with
        | Err _ => CliResult false "" []
        | Ok p =>
            match cli_output a with
            | Some o =>
                match escape_path rt o with
                | Err _ => CliResult false "" []
                | Ok path =>
                    match export_script_partial rt st p path with
                    | Err _ => CliResult false "" []
                    | Ok w1 =>
                        match save_other_files_partial rt st p with
                        | Err _ => CliResult false "" w1
                        | Ok w2 => CliResult true "" (w1 ++ w2)%list
                        end
                    end
                end
            | None =>
                let out := partial_script_text p ++ nl in
                match save_other_files_partial rt st p with
                | Err _ => CliResult false out []
                | Ok w2 => CliResult true out w2
                end
            end
        end
      else
        match gen_normal d rt with
        | Err _ => CliResult false "" []
        | Ok w =>
            match cli_output a with
            | Some o =>
                match escape_path rt o with
                | Err _ => CliResult false "" []
                | Ok path =>
                    match save_other_files_normal rt st w with
                    | Err _ => CliResult false "" [(path, script_text w)]
                    | Ok w2 => CliResult true "" ((path, script_text w) :: w2)
                    end
                end
            | None =>
                let out := script_text w ++ nl in
                match save_other_files_normal rt st w with
                | Err _ => CliResult false out []
                | Ok w2 => CliResult true out w2
                end
            end
        end
    end
  end.
