(* Data types of the model: the serial (as-deserialised) records with their presence lattice,
   the public Document records, errors and the result monad.  Restates absent_nullable.rs,
   error.rs and the struct definitions of settings.rs, segment.rs, file_info.rs, gp_info.rs,
   vram_class.rs, symbol_assignment.rs, required_symbol.rs, assert_entry.rs, document.rs. *)
From Slinky Require Export Base.Strs.

(* ---------- errors and results ---------- *)

Inductive err :=
| EYaml                                              (* FailedYamlParsing (serde's part) *)
| ENullOnNonNull (name : string)
| EEmptyValue (name : string)
| EInvalidFieldCombo (f1 f2 : string)
| EMissingRequiredField (name : string)
| EMissingRequiredFieldCombo (required other : string)
| EMissingAnyOfOptionalFields (fields : string)
| ECustomOptionNotProvided (path option : string)
| EMissingSectionForSegment (field section segment : string)
| EMissingVramClassForSegment (segment class : string)
| EInvalidSegmentCount (n : nat)                      (* fix F4 *)
| ESubgroupCycle (segment section : string)           (* fix F6 *)
| ECrash (what : string).                             (* panic / abort / stack overflow *)

Inductive res (A : Type) :=
| Ok (a : A)
| Err (e : err).
Arguments Ok {A} a.
Arguments Err {A} e.

Definition bind {A B} (r : res A) (f : A -> res B) : res B :=
  match r with Ok a => f a | Err e => Err e end.
Notation "'do' x <- r ; k" := (bind r (fun x => k)) (at level 200, x pattern, r at level 100, k at level 200).

Fixpoint map_res {A B} (f : A -> res B) (l : list A) : res (list B) :=
  match l with
  | [] => Ok []
  | x :: r => do y <- f x; do ys <- map_res f r; Ok (y :: ys)
  end.

Definition is_ok {A} (r : res A) : bool := match r with Ok _ => true | Err _ => false end.

(* ---------- presence lattice (absent_nullable.rs) ---------- *)

Inductive an (A : Type) :=
| Absent
| Null
| Value (a : A).
Arguments Absent {A}.
Arguments Null {A}.
Arguments Value {A} a.

Definition get_non_null {A} (x : an A) (name : string) (default : A) : res A :=
  match x with Absent => Ok default | Null => Err (ENullOnNonNull name) | Value v => Ok v end.

Definition get_non_null_not_empty_list {A} (x : an (list A)) (name : string) : res (list A) :=
  match x with
  | Absent => Ok []
  | Null => Err (ENullOnNonNull name)
  | Value [] => Err (EEmptyValue name)
  | Value v => Ok v
  end.

Definition get_non_null_no_default {A} (x : an A) (name : string) : res (option A) :=
  match x with Absent => Ok None | Null => Err (ENullOnNonNull name) | Value v => Ok (Some v) end.

Definition get_optional_nullable {A} (x : an A) (default : option A) : res (option A) :=
  match x with Absent => Ok default | Null => Ok None | Value v => Ok (Some v) end.

Definition get_required {A} (x : an A) (name : string) : res A :=
  match x with Absent | Null => Err (EMissingRequiredField name) | Value v => Ok v end.

Definition has_value {A} (x : an A) : bool :=
  match x with Value _ => true | _ => false end.

(* ---------- small enums ---------- *)

Inductive file_kind := KObject | KArchive | KPad | KLinkerOffset | KGroup.

Definition file_kind_eqb (a b : file_kind) : bool :=
  match a, b with
  | KObject, KObject | KArchive, KArchive | KPad, KPad
  | KLinkerOffset, KLinkerOffset | KGroup, KGroup => true
  | _, _ => false
  end.

Inductive style := Splat | Makerom.

(* keep_sections.rs.  At the serial level serde may also fail on the field (null, a
   string, a number ...): [SKInvalid]. *)
Inductive keep := KAbsent | KAll (b : bool) | KWhich (l : list string).
Inductive skeep := SKAbsent | SKBool (b : bool) | SKList (l : list string) | SKInvalid.

Definition keep_is_absent (k : keep) : bool := match k with KAbsent => true | _ => false end.

Definition pairs := list (string * string).

Record conds := mkConds {
  inc_any : pairs; inc_all : pairs; exc_any : pairs; exc_all : pairs }.

Record conds_serial := mkCondsSerial {
  cs_inc_any : an pairs; cs_inc_all : an pairs; cs_exc_any : an pairs; cs_exc_all : an pairs }.

Definition no_conds : conds := mkConds [] [] [] [].

(* ---------- serial records ---------- *)
(* [*_unknown] lists the keys present in the YAML mapping that the struct does not declare
   (serde: deny_unknown_fields).  Plain (non-AbsentNullable) required list fields are [option]:
   [None] stands for absent or null, both of which serde rejects.  Plain required String fields keep
   the three-way presence: serde rejects an absent one, but serde_yaml reads the scalar `null` into a
   String as the four characters "null" ([plain_str]). *)

Definition plain_str (x : an string) : option string :=
  match x with Absent => None | Null => Some "null" | Value v => Some v end.

Inductive file_serial := FileSerial {
  fs_unknown : list string;
  fs_path : an string;
  fs_kind : an file_kind;
  fs_subfile : an string;
  fs_pad_amount : an N;
  fs_section : an string;
  fs_linker_offset_name : an string;
  fs_section_order : an pairs;
  fs_files : an (list file_serial);
  fs_dir : an string;
  fs_conds : conds_serial;
  fs_keep : skeep }.

Record gp_serial := GpSerial {
  gs_unknown : list string;
  gs_section : an string;
  gs_offset : an Z;
  gs_provide : an bool;
  gs_hidden : an bool;
  gs_conds : conds_serial }.

Record segment_serial := SegmentSerial {
  ss_unknown : list string;
  ss_name : an string;
  ss_files : option (list file_serial);
  ss_fixed_vram : an N;
  ss_fixed_symbol : an string;
  ss_follows_segment : an string;
  ss_vram_class : an string;
  ss_dir : an string;
  ss_gp_info : an gp_serial;
  ss_conds : conds_serial;
  ss_alloc_sections : an (list string);
  ss_noload_sections : an (list string);
  ss_subalign : an N;
  ss_segment_start_align : an N;
  ss_segment_end_align : an N;
  ss_section_start_align : an N;
  ss_section_end_align : an N;
  ss_sections_start_alignment : an (list (string * N));
  ss_sections_end_alignment : an (list (string * N));
  ss_wildcard_sections : an bool;
  ss_fill_value : an N;
  ss_sections_subgroups : an (list (string * list string));
  ss_keep : skeep }.

Record settings_serial := SettingsSerial {
  sts_unknown : list string;
  sts_base_path : an string;
  sts_linker_symbols_style : an style;
  sts_hardcoded_gp_value : an N;
  sts_d_path : an string;
  sts_target_path : an string;
  sts_symbols_header_path : an string;
  sts_symbols_header_type : an string;
  sts_symbols_header_as_array : an bool;
  sts_sections_allowlist : an (list string);
  sts_sections_allowlist_extra : an (list string);
  sts_sections_denylist : an (list string);
  sts_discard_wildcard_section : an bool;
  sts_single_segment_mode : an bool;
  sts_partial_scripts_folder : an string;
  sts_partial_build_segments_folder : an string;
  sts_alloc_sections : an (list string);
  sts_noload_sections : an (list string);
  sts_subalign : an N;
  sts_segment_start_align : an N;
  sts_segment_end_align : an N;
  sts_section_start_align : an N;
  sts_section_end_align : an N;
  sts_sections_start_alignment : an (list (string * N));
  sts_sections_end_alignment : an (list (string * N));
  sts_wildcard_sections : an bool;
  sts_fill_value : an N;
  sts_sections_subgroups : an (list (string * list string)) }.

Record class_serial := ClassSerial {
  vs_unknown : list string;
  vs_name : an string;
  vs_fixed_vram : an N;
  vs_fixed_symbol : an string;
  vs_follows_classes : an (list string);
  vs_keep : skeep }.

Record assign_serial := AssignSerial {
  as_unknown : list string;
  as_name : an string;
  as_value : an string;
  as_provide : an bool;
  as_hidden : an bool;
  as_conds : conds_serial }.

Record required_serial := RequiredSerial {
  rs_unknown : list string;
  rs_name : an string;
  rs_conds : conds_serial }.

Record assert_serial := AssertSerial {
  ats_unknown : list string;
  ats_check : an string;
  ats_error_message : an string;
  ats_conds : conds_serial }.

Record document_serial := DocumentSerial {
  ds_unknown : list string;
  ds_settings : an settings_serial;
  ds_vram_classes : an (list class_serial);
  ds_segments : option (list segment_serial);
  ds_entry : an string;
  ds_symbol_assignments : an (list assign_serial);
  ds_required_symbols : an (list required_serial);
  ds_asserts : an (list assert_serial) }.

(* ---------- public records ---------- *)

Inductive file_info := FileInfo {
  fi_path : string;
  fi_kind : file_kind;
  fi_subfile : string;
  fi_pad_amount : N;
  fi_section : string;
  fi_linker_offset_name : string;
  fi_section_order : pairs;
  fi_files : list file_info;
  fi_dir : string;
  fi_conds : conds;
  fi_keep : keep }.

Record gp_info := GpInfo {
  gp_section : string;
  gp_offset : Z;
  gp_provide : bool;
  gp_hidden : bool;
  gp_conds : conds }.

Record settings := Settings {
  base_path : string;
  linker_symbols_style : style;
  hardcoded_gp_value : option N;
  d_path : option string;
  target_path : option string;
  symbols_header_path : option string;
  symbols_header_type : string;
  symbols_header_as_array : bool;
  sections_allowlist : list string;
  sections_allowlist_extra : list string;
  sections_denylist : list string;
  discard_wildcard_section : bool;
  single_segment_mode : bool;
  partial_scripts_folder : option string;
  partial_build_segments_folder : option string;
  st_alloc_sections : list string;
  st_noload_sections : list string;
  st_subalign : option N;
  st_segment_start_align : option N;
  st_segment_end_align : option N;
  st_section_start_align : option N;
  st_section_end_align : option N;
  st_sections_start_alignment : list (string * N);
  st_sections_end_alignment : list (string * N);
  st_wildcard_sections : bool;
  st_fill_value : option N;
  st_sections_subgroups : list (string * list string) }.

Record segment := Segment {
  sg_name : string;
  sg_files : list file_info;
  sg_fixed_vram : option N;
  sg_fixed_symbol : option string;
  sg_follows_segment : option string;
  sg_vram_class : option string;
  sg_dir : string;
  sg_gp_info : option gp_info;
  sg_conds : conds;
  alloc_sections : list string;
  noload_sections : list string;
  subalign : option N;
  segment_start_align : option N;
  segment_end_align : option N;
  section_start_align : option N;
  section_end_align : option N;
  sections_start_alignment : list (string * N);
  sections_end_alignment : list (string * N);
  wildcard_sections : bool;
  fill_value : option N;
  sections_subgroups : list (string * list string);
  sg_keep : keep }.

Record vram_class := VramClass {
  vc_name : string;
  vc_fixed_vram : option N;
  vc_fixed_symbol : option string;
  vc_follows_classes : list string;
  vc_keep : keep }.

Record symbol_assignment := SymbolAssignment {
  sa_name : string;
  sa_value : string;
  sa_provide : bool;
  sa_hidden : bool;
  sa_conds : conds }.

Record required_symbol := RequiredSymbol {
  rq_name : string;
  rq_conds : conds }.

Record assert_entry := AssertEntry {
  ae_check : string;
  ae_error_message : string;
  ae_conds : conds }.

Record document := Document {
  doc_settings : settings;
  doc_vram_classes : list vram_class;
  doc_segments : list segment;
  doc_entry : option string;
  doc_symbol_assignments : list symbol_assignment;
  doc_required_symbols : list required_symbol;
  doc_asserts : list assert_entry }.

(* run-time settings: custom options as the sequence of pairs given to add_custom_options
   (HashMap::extend: the last value per key wins) and the version-comment flag *)
Record runtime := Runtime {
  rt_options : pairs;
  rt_emit_version_comment : bool }.

Definition opt_get (rt : runtime) (k : string) : option string := lookup_last k (rt_options rt).
