(* LdSem: an executable model of how GNU ld evaluates the fragment of the linker-script language that
   slinky emits (DESIGN.md 2.3).  This file models the CONSUMER of slinky's output, not /repo; it is
   validated against the real `ld` 2.40 by the ld correspondence on every run.  No proofs here. *)
From Slinky Require Import Model.Types Model.Script.
Local Open Scope string_scope.
Local Open Scope Z_scope.

(* ---------- the object universe ---------- *)

Record usec := USec {
  u_path : string;              (* file name as the script spells it *)
  u_member : option string;     (* archive member name *)
  u_name : string;              (* input section name; "COMMON" for a common symbol *)
  u_size : Z;
  u_align : Z;                  (* power of two, >= 1 *)
  u_nobits : bool;
  u_marker : string }.          (* global symbol at the start of the section *)

(* ---------- layout state ---------- *)

Record osec := OSec {
  os_name : string;
  os_vma : Z;
  os_size : Z;
  os_lma : option Z;
  os_noload : bool;
  os_contents : bool }.         (* some placed input section has file contents *)

Record placement := Placement {
  pl_marker : string;
  pl_addr : Z;
  pl_outsec : string }.

Inductive lerr :=
| LForwardRef (what : string)          (* unknown symbol where ld needs a value at once *)
| LUndefined (sym : string)
| LAssertFailed (msg : string)
| LOpaque (text : string)              (* expression outside the modelled grammar *)
| LIrregular (what : string).          (* a construct whose treatment by ld is not modelled *)

Record lstate := LState {
  l_dot : Z;
  l_syms : list (string * Z);          (* script-defined symbols, latest first *)
  l_provided : list string;            (* symbols assigned under PROVIDE: defined only if needed *)
  l_secs : list osec;                  (* in script order *)
  l_placed : list placement;
  l_remaining : list usec;
  l_discarded : list string;           (* markers *)
  l_errors : list lerr }.

Definition align_up (x a : Z) : Z := if a <=? 1 then x else ((x + a - 1) / a) * a.

Definition sym_lookup (s : string) (st : lstate) (env ext : list (string * Z)) : option Z :=
  (* ld has one symbol table: a value assigned by the script in the previous pass hides the definition
     coming from an object, also for a use that precedes the assignment *)
  match lookup s (l_syms st) with
  | Some v => Some v
  | None => match lookup s env with
            | Some v => Some v
            | None => lookup s ext
            end
  end.

Definition find_sec (name : string) (l : list osec) : option osec :=
  find (fun o => String.eqb (os_name o) name) l.

Definition sec_lookup (name : string) (st : lstate) (senv : list osec) : option osec :=
  match find_sec name (l_secs st) with
  | Some o => Some o
  | None => find_sec name senv
  end.

(* ---------- the small expression grammar of user text ---------- *)

Definition digit_val (c : ascii) : option Z :=
  let n := Z.of_nat (nat_of_ascii c) in
  if (48 <=? n) && (n <=? 57) then Some (n - 48)
  else if (97 <=? n) && (n <=? 102) then Some (n - 87)
  else if (65 <=? n) && (n <=? 70) then Some (n - 55)
  else None.

Fixpoint parse_digits (base : Z) (s : string) (acc : Z) : option Z :=
  match s with
  | EmptyString => Some acc
  | String c r => match digit_val c with
                  | Some d => if d <? base then parse_digits base r (acc * base + d) else None
                  | None => None
                  end
  end.

Definition parse_num (s : string) : option Z :=
  match s with
  | String "0" (String "x" r) => match r with EmptyString => None | _ => parse_digits 16 r 0 end
  | String "0" (String "X" r) => match r with EmptyString => None | _ => parse_digits 16 r 0 end
  | EmptyString => None
  | _ => parse_digits 10 s 0
  end.

Definition b2z (b : bool) : Z := if b then 1 else 0.

(* ---------- execution ---------- *)

Section Exec.
  Variable env : list (string * Z).     (* symbol values of the previous pass (forward references) *)
  Variable senv : list osec.            (* sections of the previous pass (ADDR/SIZEOF before the section) *)
  Variable ext : list (string * Z).     (* symbols defined by the objects: markers are added as placed *)
  Variable final : bool.                (* the last pass: what is still unknown is an undefined symbol *)

  Definition atom (st : lstate) (t : string) : option Z :=
    match parse_num t with
    | Some v => Some v
    | None => sym_lookup t st env ext
    end.

  Definition defined_arg (t : string) : option string :=
    (* DEFINED(x) *)
    if String.prefix "DEFINED(" t && ends_with_char ")" t
    then Some (substring 8 (String.length t - 9) t) else None.

  Definition eval_raw (st : lstate) (t : string) : res Z :=
    match defined_arg t with
    | Some s => Ok (b2z (is_some (sym_lookup s st env ext)))
    | None =>
      match split_on " " t with
      | [a] => match atom st a with Some v => Ok v | None => Err (EYaml) end
      | [a; op; b] =>
          match atom st a, atom st b with
          | Some x, Some y =>
              if String.eqb op "+" then Ok (x + y)
              else if String.eqb op "-" then Ok (x - y)
              else if String.eqb op "<=" then Ok (b2z (x <=? y))
              else if String.eqb op "<" then Ok (b2z (x <? y))
              else if String.eqb op ">=" then Ok (b2z (y <=? x))
              else if String.eqb op ">" then Ok (b2z (y <? x))
              else if String.eqb op "==" then Ok (b2z (x =? y))
              else if String.eqb op "!=" then Ok (b2z (negb (x =? y)))
              else Err (ECrash t)
          | _, _ => Err EYaml
          end
      | _ => Err (ECrash t)
      end
    end.
  (* Err EYaml = a symbol is unknown; Err (ECrash t) = outside the grammar *)

  (* [here] is the absolute value of "." *)
  Definition eval_expr (st : lstate) (here : Z) (e : expr) : res Z :=
    match e with
    | EHex8 n => Ok (Z.of_N n)
    | ERaw s => eval_raw st s
    | ESym s => match sym_lookup s st env ext with Some v => Ok v | None => Err EYaml end
    | EDot => Ok here
    | EAddr sec => match sec_lookup sec st senv with Some o => Ok (os_vma o) | None => Err EYaml end
    | EAbsSub a b | ESub a b =>
        match sym_lookup a st env ext, sym_lookup b st env ext with
        | Some x, Some y => Ok (x - y)
        | _, _ => Err EYaml
        end
    | EDotPlus off => Ok (here + Z.modulo off 4294967296)
    end.

  Definition add_err (e : lerr) (st : lstate) : lstate :=
    LState (l_dot st) (l_syms st) (l_provided st) (l_secs st) (l_placed st) (l_remaining st)
           (l_discarded st) (l_errors st ++ [e]).

  Definition set_dot (d : Z) (st : lstate) : lstate :=
    LState d (l_syms st) (l_provided st) (l_secs st) (l_placed st) (l_remaining st)
           (l_discarded st) (l_errors st).

  Definition set_sym (s : string) (v : Z) (provide : bool) (st : lstate) : lstate :=
    LState (l_dot st) ((s, v) :: l_syms st) (if provide then s :: l_provided st else l_provided st)
           (l_secs st) (l_placed st) (l_remaining st) (l_discarded st) (l_errors st).

  (* a symbol assignment whose value cannot be computed yet is left for the next pass *)
  Definition assign (provide : bool) (sym : string) (r : res Z) (text : string) (st : lstate) : lstate :=
    match r with
    | Ok v =>
        (* PROVIDE does not override a definition coming from the objects *)
        if provide && is_some (lookup sym ext) then st else set_sym sym v provide st
    | Err (ECrash t) => add_err (LOpaque t) st
    | Err _ => if final && negb provide then add_err (LUndefined text) st else st
    end.

  (* which input sections an input statement selects *)
  Definition file_matches (path : string) (member : option string) (u : usec) : bool :=
    match member, u_member u with
    | None, None => String.eqb path (u_path u)
    | Some m, Some um => String.eqb path (u_path u) && (String.eqb m "*" || String.eqb m um)
    | _, _ => false
    end.

  Definition name_matches (sect : string) (wild : bool) (n : string) : bool :=
    if wild then String.prefix sect n else String.eqb sect n.

  Definition sel (any_file : bool) (path : string) (member : option string) (sect : string) (wild : bool)
             (u : usec) : bool :=
    (any_file || file_matches path member u) && name_matches sect wild (u_name u).

  (* place the selected sections, in link order, at the current offset of the open output section *)
  Fixpoint place (vma : Z) (sub : option Z) (outsec : string) (l : list usec) (off : Z)
           (acc : list placement) (contents : bool) : Z * list placement * bool :=
    match l with
    | [] => (off, acc, contents)
    | u :: r =>
        let a := match sub with Some s => s | None => u_align u end in
        let addr := align_up (vma + off) a in
        place vma sub outsec r (addr - vma + u_size u)
              (acc ++ [Placement (u_marker u) addr outsec])
              (contents || negb (u_nobits u))
    end.

  Record sstate := SState {      (* inside an output section *)
    s_off : Z;
    s_contents : bool;
    s_st : lstate }.

  Definition exec_sec_stmt (vma : Z) (sub : option Z) (outsec : string) (ss : sstate) (s : stmt) : sstate :=
    let st := s_st ss in
    let here := vma + s_off ss in
    match s with
    | SAlign sym n =>
        if String.eqb sym "." then SState (align_up (s_off ss) (Z.of_N n)) (s_contents ss) st
        else ss
    | SDotAdd n => SState (s_off ss + Z.of_N n) (s_contents ss) st
    | SAssign p _ _ sym e =>
        SState (s_off ss) (s_contents ss) (assign p sym (eval_expr st here e) (render_expr e) st)
    | SInput _ path member sect wild =>
        let chosen := filter (sel false path member sect wild) (l_remaining st) in
        let rest := filter (fun u => negb (sel false path member sect wild u)) (l_remaining st) in
        let '(off', pls, c) := place vma sub outsec chosen (s_off ss) [] (s_contents ss) in
        SState off' c
               (LState (l_dot st) (l_syms st) (l_provided st) (l_secs st) (l_placed st ++ pls) rest
                       (l_discarded st) (l_errors st))
    | _ => ss      (* FILL, blank *)
    end.

  (* largest alignment among the input sections the body will receive (pre-pass) *)
  Fixpoint body_align (sub : option Z) (body : list stmt) (remaining : list usec) (acc : Z) : Z :=
    match body with
    | [] => acc
    | SInput _ path member sect wild :: r =>
        let chosen := filter (sel false path member sect wild) remaining in
        let rest := filter (fun u => negb (sel false path member sect wild u)) remaining in
        (* the output section keeps the natural alignment of what it receives, SUBALIGN only adds to it *)
        let acc' := fold_left (fun m u => Z.max (Z.max m (u_align u)) (match sub with Some s => s | None => 1 end))
                              chosen acc in
        body_align sub r rest acc'
    | _ :: r => body_align sub r remaining acc
    end.

  (* is every symbol of an address expression already defined when the output section is reached?
     (ld accepts some forward references in address expressions and rejects others: not modelled) *)
  Definition known_now (st : lstate) (t : string) : bool :=
    is_some (parse_num t) || is_some (lookup t (l_syms st)) || is_some (lookup t ext) ||
    existsb (String.eqb t) ["+"; "-"].

  Definition addr_strict (st : lstate) (e : expr) : bool :=
    match e with
    | EHex8 _ => true
    | ESym s => known_now st s
    | ERaw t => forallb (known_now st) (split_on " " t)
    | _ => false
    end.

  Definition exec_outsec (name : string) (addr : option expr) (at_ : option string) (noload : bool)
             (sub : option N) (body : list stmt) (st : lstate) : lstate :=
    let subz := option_map Z.of_N sub in
    let a := body_align subz body (l_remaining st) 1 in
    let vma_r := match addr with
                 | Some e => eval_expr st (l_dot st) e
                 | None => Ok (align_up (l_dot st) a)
                 end in
    match vma_r with
    | Err _ => add_err (LForwardRef name) st
    | Ok vma =>
        let ss := fold_left (exec_sec_stmt vma subz name) body (SState 0 false st) in
        (* an output section that receives nothing and defines no symbol is dropped by ld, which then
           treats its address request irregularly: not modelled *)
        let st0 := s_st ss in
        let defines := existsb (fun s => match s with SAssign _ _ _ _ _ => true | _ => false end) body in
        let empty := Nat.eqb (List.length (l_placed st0)) (List.length (l_placed st)) in
        let forward := match addr with Some e => negb (addr_strict st e) | None => false end in
        let st' := if (is_some addr && empty && negb defines) || forward
                   then add_err (LIrregular name) st0 else st0 in
        let lma := match at_ with
                   | Some s => sym_lookup s st' env ext
                   | None => None
                   end in
        LState (vma + s_off ss) (l_syms st') (l_provided st')
               (l_secs st' ++ [OSec name vma (s_off ss) lma noload (s_contents ss && negb noload)])
               (l_placed st') (l_remaining st') (l_discarded st') (l_errors st')
    end.

  Definition exec_top_stmt (st : lstate) (s : stmt) : lstate :=
    match s with
    | SAssign p _ _ sym e =>
        if String.eqb sym "." then
          match eval_expr st (l_dot st) e with
          | Ok v => set_dot v st
          | Err _ => add_err (LForwardRef ".") st
          end
        else assign p sym (eval_expr st (l_dot st) e) (render_expr e) st
    | SAlign sym n =>
        if String.eqb sym "." then set_dot (align_up (l_dot st) (Z.of_N n)) st
        else match sym_lookup sym st env ext with
             | Some v => set_sym sym (align_up v (Z.of_N n)) false st
             | None => st
             end
    | SMaxSelf sym other =>
        match sym_lookup sym st env ext, sym_lookup other st env ext with
        | Some a, Some b => set_sym sym (Z.max a b) false st
        | _, _ => if final then add_err (LUndefined other) st else st
        end
    | SRomAdd sec =>
        match sym_lookup "__romPos" st env ext, sec_lookup sec st senv with
        | Some v, Some o => set_sym "__romPos" (v + os_size o) false st
        | _, _ => if final then add_err (LUndefined sec) st else st
        end
    | SOutSec name addr at_ noload sub body => exec_outsec name addr at_ noload sub body st
    | SSingleEntry sect =>
        (* sect 0 : { *(sect); } *)
        let chosen := filter (sel true "" None sect false) (l_remaining st) in
        let rest := filter (fun u => negb (sel true "" None sect false u)) (l_remaining st) in
        let a := fold_left (fun m u => Z.max m (u_align u)) chosen 1 in
        let '(off', pls, c) := place 0 None sect chosen 0 [] false in
        LState off' (l_syms st) (l_provided st)
               (l_secs st ++ [OSec sect 0 off' None false c])
               (l_placed st ++ pls) rest (l_discarded st) (l_errors st)
    | SDiscard pats wild =>
        let hit u := existsb (fun p => name_matches p false (u_name u)) pats || wild in
        LState (l_dot st) (l_syms st) (l_provided st) (l_secs st) (l_placed st)
               (filter (fun u => negb (hit u)) (l_remaining st))
               (l_discarded st ++ map u_marker (filter hit (l_remaining st))) (l_errors st)
    | SAssert cond msg =>
        match eval_raw st cond with
        | Ok v => if v =? 0 then add_err (LAssertFailed msg) st else st
        | Err (ECrash t) => add_err (LOpaque t) st
        | Err _ => if final then add_err (LUndefined cond) st else st
        end
    | _ => st      (* comment, blank, ENTRY, EXTERN *)
    end.

  Definition exec_script (script : list stmt) (st : lstate) : lstate :=
    fold_left (fun st s =>
                 match s with
                 | SSections body => fold_left exec_top_stmt body st
                 | _ => exec_top_stmt st s
                 end) script st.
End Exec.

Definition init_state (u : list usec) : lstate := LState 0 [] [] [] [] u [] [].

(* undefined symbols: referenced by an assignment that could not be evaluated in the final pass *)
Definition refs_of_raw (t : string) : list string :=
  filter (fun a => negb (is_some (parse_num a)) &&
                   negb (existsb (String.eqb a) ["+"; "-"; "<="; "<"; ">="; ">"; "=="; "!="]))
         (split_on " " t).

(* ld's passes: sizing, then the final evaluation with every section and symbol of the first pass
   available for forward references; markers become symbols once placed *)
Definition markers_of (st : lstate) : list (string * Z) :=
  map (fun p => (pl_marker p, pl_addr p)) (l_placed st).

Definition layout (script : list stmt) (u : list usec) (ext : list (string * Z)) : lstate :=
  let p1 := exec_script [] [] ext false script (init_state u) in
  let ext2 := (ext ++ markers_of p1)%list in
  let p2 := exec_script (l_syms p1) (l_secs p1) ext2 false script (init_state u) in
  let ext3 := (ext ++ markers_of p2)%list in
  exec_script (l_syms p2) (l_secs p2) ext3 true script (init_state u).
