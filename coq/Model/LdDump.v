(* JSON rendering of an LdSem layout, for the ld correspondence.  Printing only. *)
From Slinky Require Import Model.Types Model.Script Model.LdSem Model.Dump.
Local Open Scope string_scope.

Definition jz (z : Z) : string := dec_of_Z z.

Definition jlerr (e : lerr) : string :=
  match e with
  | LForwardRef w => jlist jstr ["forward"; w]
  | LUndefined s => jlist jstr ["undefined"; s]
  | LAssertFailed m => jlist jstr ["assert"; m]
  | LOpaque t => jlist jstr ["opaque"; t]
  | LIrregular t => jlist jstr ["irregular"; t]
  end.

(* the final value of each symbol (first binding = latest) *)
Fixpoint dedup_syms (l : list (string * Z)) (seen : list string) : list (string * Z) :=
  match l with
  | [] => []
  | (k, v) :: r => if mem_str k seen then dedup_syms r seen else (k, v) :: dedup_syms r (k :: seen)
  end.

Definition jlayout (script : list stmt) (st : lstate) : string :=
  jobj [("render", jstr (lines_to_text (render script)));
        ("syms", jobj (map (fun kv => (fst kv, jz (snd kv))) (dedup_syms (l_syms st) [])));
        ("provided", jlist jstr (l_provided st));
        ("secs", jlist (fun o => jobj [("name", jstr (os_name o)); ("vma", jz (os_vma o));
                                       ("size", jz (os_size o)); ("lma", jopt jz (os_lma o));
                                       ("noload", jbool (os_noload o)); ("contents", jbool (os_contents o))])
                       (l_secs st));
        ("placed", jlist (fun p => jlist (fun x => x) [jstr (pl_marker p); jz (pl_addr p); jstr (pl_outsec p)])
                         (l_placed st));
        ("discarded", jlist jstr (l_discarded st));
        ("orphans", jlist (fun u => jstr (u_marker u)) (l_remaining st));
        ("errors", jlist jlerr (l_errors st))].

Definition run_link (script : list stmt) (u : list usec) (ext : list (string * Z)) : string :=
  jlayout script (layout script u ext).
