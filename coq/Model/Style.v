(* linker_symbols_style.rs and utils.rs::capitalize, driven by the templates of Generated.v *)
From Slinky Require Import Model.Types Model.Generated.
Local Open Scope string_scope.

Definition pick (st : style) (t : list string * list string) : list string :=
  match st with Splat => fst t | Makerom => snd t end.

(* format!: interleave the literal pieces with the arguments *)
Fixpoint fmt (pieces : list string) (args : list string) : string :=
  match pieces with
  | [] => ""
  | p :: ps => match args with
               | a :: rest => match ps with
                              | [] => p
                              | _ => p ++ a ++ fmt ps rest
                              end
               | [] => p ++ fmt ps []
               end
  end.

(* utils::capitalize after fix F5: upper-case the first character, keep the rest (ASCII domain) *)
Definition capitalize (s : string) : string :=
  match s with
  | EmptyString => ""
  | String c r => String (upper_ascii c) r
  end.

Definition convert_section_name (st : style) (sec : string) : string :=
  match st with
  | Splat => to_upper (replace_char "." "_" sec)
  | Makerom =>
      if String.eqb sec makerom_special_from then makerom_special_to
      else match sec with
           | String "." r => capitalize r
           | _ => capitalize sec
           end
  end.

Definition segment_rom_start st seg := fmt (pick st tpl_segment_rom_start) [seg].
Definition segment_rom_end st seg := fmt (pick st tpl_segment_rom_end) [seg].
Definition segment_rom_size st seg := fmt (pick st tpl_segment_rom_size) [seg].
Definition segment_vram_start st seg := fmt (pick st tpl_segment_vram_start) [seg].
Definition segment_vram_end st seg := fmt (pick st tpl_segment_vram_end) [seg].
Definition segment_vram_size st seg := fmt (pick st tpl_segment_vram_size) [seg].
Definition segment_section_start st seg sec :=
  fmt (pick st tpl_segment_section_start) [seg; convert_section_name st sec].
Definition segment_section_end st seg sec :=
  fmt (pick st tpl_segment_section_end) [seg; convert_section_name st sec].
Definition segment_section_size st seg sec :=
  fmt (pick st tpl_segment_section_size) [seg; convert_section_name st sec].
Definition linker_offset st name := fmt (pick st tpl_linker_offset) [name].
Definition vram_class_start st name := fmt (pick st tpl_vram_class_start) [name].
Definition vram_class_end st name := fmt (pick st tpl_vram_class_end) [name].
Definition vram_class_size st name := fmt (pick st tpl_vram_class_size) [name].
