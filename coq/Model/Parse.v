(* Document parsing: serde's structural checks (as far as they are modelled) followed by the
   `unserialize` functions, in the evaluation order of the Rust so that the first error is
   the same.  Restates settings.rs, segment.rs, file_info.rs, gp_info.rs, vram_class.rs,
   symbol_assignment.rs, required_symbol.rs, assert_entry.rs, document.rs, file_kind.rs. *)
From Slinky Require Import Model.Types Model.Generated.

(* ---------- serde's part (modelled, validated by the correspondence) ---------- *)

Definition no_unknown (l : list string) : bool := match l with [] => true | _ => false end.
Definition skeep_ok (k : skeep) : bool := match k with SKInvalid => false | _ => true end.

Definition an_ok {A} (f : A -> bool) (x : an A) : bool :=
  match x with Value v => f v | _ => true end.

Fixpoint nodup_keys {A} (l : list (string * A)) : bool :=
  match l with
  | [] => true
  | (k, _) :: r => andb (negb (is_some (lookup k r))) (nodup_keys r)
  end.

Fixpoint serde_ok_file (f : file_serial) : bool :=
  no_unknown (fs_unknown f) && skeep_ok (fs_keep f) &&
  an_ok nodup_keys (fs_section_order f) &&
  match fs_files f with
  | Value l => (fix all (l : list file_serial) : bool :=
                  match l with [] => true | x :: r => serde_ok_file x && all r end) l
  | _ => true
  end.

Definition serde_ok_gp (g : gp_serial) : bool := no_unknown (gs_unknown g).

Definition opt_ok {A} (f : A -> bool) (x : option A) : bool :=
  match x with Some v => f v | None => false end.

Definition serde_ok_segment (s : segment_serial) : bool :=
  no_unknown (ss_unknown s) && is_some (plain_str (ss_name s)) &&
  opt_ok (forallb serde_ok_file) (ss_files s) &&
  an_ok serde_ok_gp (ss_gp_info s) && skeep_ok (ss_keep s) &&
  an_ok nodup_keys (ss_sections_start_alignment s) &&
  an_ok nodup_keys (ss_sections_end_alignment s) &&
  an_ok nodup_keys (ss_sections_subgroups s).

Definition serde_ok_settings (s : settings_serial) : bool :=
  no_unknown (sts_unknown s) &&
  an_ok nodup_keys (sts_sections_start_alignment s) &&
  an_ok nodup_keys (sts_sections_end_alignment s) &&
  an_ok nodup_keys (sts_sections_subgroups s).

Definition serde_ok_class (c : class_serial) : bool :=
  no_unknown (vs_unknown c) && is_some (plain_str (vs_name c)) && skeep_ok (vs_keep c).

Definition serde_ok_assign (a : assign_serial) : bool :=
  no_unknown (as_unknown a) && is_some (plain_str (as_name a)) && is_some (plain_str (as_value a)).

Definition serde_ok_required (r : required_serial) : bool :=
  no_unknown (rs_unknown r) && is_some (plain_str (rs_name r)).

Definition serde_ok_assert (a : assert_serial) : bool :=
  no_unknown (ats_unknown a) && is_some (plain_str (ats_check a)) && is_some (plain_str (ats_error_message a)).

Definition serde_ok (d : document_serial) : bool :=
  no_unknown (ds_unknown d) &&
  an_ok serde_ok_settings (ds_settings d) &&
  an_ok (forallb serde_ok_class) (ds_vram_classes d) &&
  opt_ok (forallb serde_ok_segment) (ds_segments d) &&
  an_ok (forallb serde_ok_assign) (ds_symbol_assignments d) &&
  an_ok (forallb serde_ok_required) (ds_required_symbols d) &&
  an_ok (forallb serde_ok_assert) (ds_asserts d).

(* ---------- helpers ---------- *)

Definition opt_str (o : option string) : string := match o with Some s => s | None => "" end.

Definition keep_of_skeep (k : skeep) : keep :=
  match k with
  | SKAbsent => KAbsent
  | SKBool b => KAll b
  | SKList l => KWhich l
  | SKInvalid => KAbsent   (* unreachable after serde_ok *)
  end.

Definition parse_conds (c : conds_serial) : res conds :=
  do ia <- get_non_null_not_empty_list (cs_inc_any c) "include_if_any";
  do il <- get_non_null_not_empty_list (cs_inc_all c) "include_if_all";
  do ea <- get_non_null_not_empty_list (cs_exc_any c) "exclude_if_any";
  do el <- get_non_null_not_empty_list (cs_exc_all c) "exclude_if_all";
  Ok (mkConds ia il ea el).

Definition kind_from_path (p : string) : file_kind :=
  match extension_of p with
  | Some e => if String.eqb e "a" then KArchive else KObject
  | None => KObject
  end.

Definition file_with_keep (f : file_info) (k : keep) (files : list file_info) : file_info :=
  FileInfo (fi_path f) (fi_kind f) (fi_subfile f) (fi_pad_amount f) (fi_section f)
           (fi_linker_offset_name f) (fi_section_order f) files (fi_dir f) (fi_conds f) k.

(* FileInfo::pass_down_keep_sections *)
Fixpoint pass_down_file (k : keep) (f : file_info) : file_info :=
  match k with
  | KAbsent => f
  | _ =>
    match fi_keep f with
    | KAbsent =>
        file_with_keep f k
          (match fi_kind f with
           | KGroup => map (pass_down_file k) (fi_files f)
           | _ => fi_files f
           end)
    | _ => f
    end
  end.

Definition forbid {A} (x : an A) (f1 f2 : string) : res unit :=
  if has_value x then Err (EInvalidFieldCombo f1 f2) else Ok tt.

Definition is_group (k : file_kind) := file_kind_eqb k KGroup.
Definition is_pad (k : file_kind) := file_kind_eqb k KPad.
Definition is_offset (k : file_kind) := file_kind_eqb k KLinkerOffset.
Definition is_archive (k : file_kind) := file_kind_eqb k KArchive.
Definition is_objlike (k : file_kind) := orb (file_kind_eqb k KObject) (file_kind_eqb k KArchive).

(* FileInfoSerial::unserialize *)
Fixpoint parse_file (f : file_serial) : res file_info :=
  do ko <- get_non_null_no_default (fs_kind f) "kind";
  do pk <-
    match ko with
    | Some k =>
        if is_objlike k then
          do p <- get_required (fs_path f) "path";
          if is_empty p then Err (EEmptyValue "path") else Ok (p, k)
        else
          if has_value (fs_path f)
          then Err (EInvalidFieldCombo "`kind: pad`, `kind: linker_offset` or `kind: group`" "path")
          else Ok ("", k)
    | None =>
        do p <- get_required (fs_path f) "path";
        if is_empty p then Err (EEmptyValue "path") else Ok (p, kind_from_path p)
    end;
  let '(path, kind) := pk in
  do subfile <-
    (if is_archive kind then get_non_null (fs_subfile f) "subfile" "*"
     else do _ <- forbid (fs_subfile f) "subfile" "non `kind: archive`"; Ok "*");
  do pad_amount <-
    (if is_pad kind then get_required (fs_pad_amount f) "pad_amount"
     else do _ <- forbid (fs_pad_amount f) "pad_amount" "non `kind: pad`"; Ok 0%N);
  do section <-
    (if orb (is_pad kind) (is_offset kind) then get_required (fs_section f) "section"
     else do _ <- forbid (fs_section f) "section" "non `kind: pad or kind: linker_offset`"; Ok "");
  do linker_offset_name <-
    (if is_offset kind then get_required (fs_linker_offset_name f) "linker_offset_name"
     else do _ <- forbid (fs_linker_offset_name f) "linker_offset_name" "non `kind: linker_offset`"; Ok "");
  do section_order <-
    (if is_objlike kind then get_non_null (fs_section_order f) "section_order" []
     else do _ <- forbid (fs_section_order f) "section_order" "non `kind: object` or `kind: archive`"; Ok []);
  do files <-
    (if is_group kind then
       match fs_files f with
       | Value l =>
           (fix go (l : list file_serial) : res (list file_info) :=
              match l with
              | [] => Ok []
              | x :: r => do y <- parse_file x; do ys <- go r; Ok (y :: ys)
              end) l
       | _ => Err (EMissingRequiredField "files")
       end
     else do _ <- forbid (fs_files f) "files" "non `kind: group`"; Ok []);
  do dir <-
    (if is_group kind then get_non_null (fs_dir f) "dir" ""
     else do _ <- forbid (fs_dir f) "dir" "non `kind: group`"; Ok "");
  do c <- parse_conds (fs_conds f);
  let keep := keep_of_skeep (fs_keep f) in
  let files' :=
    if andb (is_group kind) (negb (keep_is_absent keep))
    then map (pass_down_file keep) files else files in
  Ok (FileInfo path kind subfile pad_amount section linker_offset_name section_order
               files' dir c keep).

(* GpInfoSerial::unserialize *)
Definition parse_gp (g : gp_serial) : res gp_info :=
  do s <- get_non_null (gs_section g) "section" gp_info_default_section;
  do section <- (if is_empty s then Err (EEmptyValue "section") else Ok s);
  do offset <- get_non_null (gs_offset g) "offset" gp_info_default_offset;
  do provide <- get_non_null (gs_provide g) "provide" gp_info_default_provide;
  do hidden <- get_non_null (gs_hidden g) "hidden" gp_info_default_hidden;
  do c <- parse_conds (gs_conds g);
  Ok (GpInfo section offset provide hidden c).

(* SettingsSerial::unserialize *)
Definition parse_settings (s : settings_serial) : res settings :=
  do base_path <- get_non_null (sts_base_path s) "base_path" settings_default_base_path;
  do lss <- get_non_null (sts_linker_symbols_style s) "linker_symbols_style" settings_default_linker_symbols_style;
  do hgp <- get_optional_nullable (sts_hardcoded_gp_value s) settings_default_hardcoded_gp_value;
  do d_path <- get_optional_nullable (sts_d_path s) settings_default_d_path;
  do target_path <- get_optional_nullable (sts_target_path s) settings_default_target_path;
  do shp <- get_optional_nullable (sts_symbols_header_path s) settings_default_symbols_header_path;
  do sht <- get_non_null (sts_symbols_header_type s) "symbols_header_type" settings_default_symbols_header_type;
  do sha <- get_non_null (sts_symbols_header_as_array s) "symbols_header_as_array" settings_default_symbols_header_as_array;
  do allow <- get_non_null (sts_sections_allowlist s) "sections_allowlist" settings_default_sections_allowlist;
  do allow_extra <- get_non_null (sts_sections_allowlist_extra s) "sections_allowlist_extra" settings_default_sections_allowlist_extra;
  do deny <- get_non_null (sts_sections_denylist s) "sections_denylist" settings_default_sections_denylist;
  do dws <- get_non_null (sts_discard_wildcard_section s) "discard_wildcard_section" settings_default_discard_wildcard_section;
  do ssm <- get_non_null (sts_single_segment_mode s) "single_segment_mode" settings_default_single_segment_mode;
  do psf <- get_optional_nullable (sts_partial_scripts_folder s) settings_default_partial_scripts_folder;
  do pbsf <- get_optional_nullable (sts_partial_build_segments_folder s) settings_default_partial_build_segments_folder;
  do _ <- (if andb (is_some d_path) (negb (is_some target_path))
           then Err (EMissingRequiredFieldCombo "target_path" "d_path") else Ok tt);
  do alloc <- get_non_null (sts_alloc_sections s) "alloc_sections" settings_default_alloc_sections;
  do noload <- get_non_null (sts_noload_sections s) "noload_sections" settings_default_noload_sections;
  do subalign <- get_optional_nullable (sts_subalign s) settings_default_subalign;
  do ssa <- get_optional_nullable (sts_segment_start_align s) settings_default_segment_start_align;
  do sea <- get_optional_nullable (sts_segment_end_align s) settings_default_segment_end_align;
  do scsa <- get_optional_nullable (sts_section_start_align s) settings_default_section_start_align;
  do scea <- get_optional_nullable (sts_section_end_align s) settings_default_section_end_align;
  do sssa <- get_non_null (sts_sections_start_alignment s) "sections_start_alignment" settings_default_sections_start_alignment;
  do ssea <- get_non_null (sts_sections_end_alignment s) "sections_end_alignment" settings_default_sections_end_alignment;
  do wild <- get_non_null (sts_wildcard_sections s) "wildcard_sections" settings_default_wildcard_sections;
  do fill <- get_optional_nullable (sts_fill_value s) settings_default_fill_value;
  do subgroups <- get_non_null (sts_sections_subgroups s) "sections_subgroups" settings_default_subsections_groups;
  Ok (Settings base_path lss hgp d_path target_path shp sht sha allow allow_extra deny dws ssm psf pbsf
               alloc noload subalign ssa sea scsa scea sssa ssea wild fill subgroups).

(* Settings::default() *)
Definition default_settings : settings :=
  Settings settings_default_base_path settings_default_linker_symbols_style
    settings_default_hardcoded_gp_value settings_default_d_path settings_default_target_path
    settings_default_symbols_header_path settings_default_symbols_header_type
    settings_default_symbols_header_as_array settings_default_sections_allowlist
    settings_default_sections_allowlist_extra settings_default_sections_denylist
    settings_default_discard_wildcard_section settings_default_single_segment_mode
    settings_default_partial_scripts_folder settings_default_partial_build_segments_folder
    settings_default_alloc_sections settings_default_noload_sections settings_default_subalign
    settings_default_segment_start_align settings_default_segment_end_align
    settings_default_section_start_align settings_default_section_end_align
    settings_default_sections_start_alignment settings_default_sections_end_alignment
    settings_default_wildcard_sections settings_default_fill_value
    settings_default_subsections_groups.

Definition combo (a b : bool) (f1 f2 : string) : res unit :=
  if andb a b then Err (EInvalidFieldCombo f1 f2) else Ok tt.

(* detection of cycles in sections_subgroups (fix F6): depth-first search bounded by the number
   of keys; [visiting] is the chain of sections being expanded *)
Fixpoint subgroup_cycle_from (fuel : nat) (g : list (string * list string))
         (visiting : list string) (s : string) : bool :=
  match fuel with
  | O => true
  | S fuel' =>
      if mem_str s visiting then true else
      match lookup s g with
      | None => false
      | Some l => existsb (subgroup_cycle_from fuel' g (s :: visiting)) l
      end
  end.

Definition subgroup_cycle (g : list (string * list string)) : option string :=
  find (fun s => subgroup_cycle_from (S (List.length g)) g [] s) (map fst g).

(* SegmentSerial::unserialize *)
Definition parse_segment (st : settings) (s : segment_serial) : res segment :=
  let name := opt_str (plain_str (ss_name s)) in
  let sfiles := match ss_files s with Some l => l | None => [] end in
  do _ <- (if is_empty name then Err (EEmptyValue "name") else Ok tt);
  do _ <- (match sfiles with [] => Err (EEmptyValue "files") | _ => Ok tt end);
  do files <- map_res parse_file sfiles;
  do fixed_vram <- get_non_null_no_default (ss_fixed_vram s) "fixed_vram";
  do fixed_symbol <- get_non_null_no_default (ss_fixed_symbol s) "fixed_symbol";
  do follows_segment <- get_non_null_no_default (ss_follows_segment s) "follows_segment";
  do vram_class <- get_non_null_no_default (ss_vram_class s) "vram_class";
  do _ <- combo (is_some fixed_vram) (is_some fixed_symbol) "fixed_vram" "fixed_symbol";
  do _ <- combo (is_some fixed_vram) (is_some follows_segment) "fixed_vram" "follows_segment";
  do _ <- combo (is_some fixed_vram) (is_some vram_class) "fixed_vram" "vram_class";
  do _ <- combo (is_some fixed_symbol) (is_some follows_segment) "fixed_symbol" "follows_segment";
  do _ <- combo (is_some fixed_symbol) (is_some vram_class) "fixed_symbol" "vram_class";
  do _ <- combo (is_some follows_segment) (is_some vram_class) "follows_segment" "vram_class";
  do dir <- get_non_null (ss_dir s) "dir" "";
  do gpo <- get_non_null_no_default (ss_gp_info s) "gp_info";
  do gp <- (match gpo with Some g => do g' <- parse_gp g; Ok (Some g') | None => Ok None end);
  do _ <- combo (is_some gp) (is_some (hardcoded_gp_value st)) "segment.gp_info" "settings.hardcoded_gp_value";
  do c <- parse_conds (ss_conds s);
  do alloc <- get_non_null (ss_alloc_sections s) "alloc_sections" (st_alloc_sections st);
  do noload <- get_non_null (ss_noload_sections s) "noload_sections" (st_noload_sections st);
  do _ <- (match gp with
           | Some g => if orb (mem_str (gp_section g) alloc) (mem_str (gp_section g) noload) then Ok tt
                       else Err (EMissingSectionForSegment "gp_info" (gp_section g) name)
           | None => Ok tt
           end);
  do subalign <- get_optional_nullable (ss_subalign s) (st_subalign st);
  do ssa <- get_optional_nullable (ss_segment_start_align s) (st_segment_start_align st);
  do sea <- get_optional_nullable (ss_segment_end_align s) (st_segment_end_align st);
  do scsa <- get_optional_nullable (ss_section_start_align s) (st_section_start_align st);
  do scea <- get_optional_nullable (ss_section_end_align s) (st_section_end_align st);
  do sssa <- get_non_null (ss_sections_start_alignment s) "sections_start_alignment" (st_sections_start_alignment st);
  do ssea <- get_non_null (ss_sections_end_alignment s) "sections_end_alignment" (st_sections_end_alignment st);
  do wild <- get_non_null (ss_wildcard_sections s) "wildcard_sections" (st_wildcard_sections st);
  do fill <- get_optional_nullable (ss_fill_value s) (st_fill_value st);
  let keep := keep_of_skeep (ss_keep s) in
  do subgroups <- get_non_null (ss_sections_subgroups s) "sections_subgroups" (st_sections_subgroups st);
  let files' := if keep_is_absent keep then files else map (pass_down_file keep) files in
  Ok (Segment name files' fixed_vram fixed_symbol follows_segment vram_class dir gp c
              alloc noload subalign ssa sea scsa scea sssa ssea wild fill subgroups keep).

(* VramClassSerial::unserialize *)
Definition parse_class (c : class_serial) : res vram_class :=
  let name := opt_str (plain_str (vs_name c)) in
  do _ <- (if is_empty name then Err (EEmptyValue "name") else Ok tt);
  do fixed_vram <- get_non_null_no_default (vs_fixed_vram c) "fixed_vram";
  do fixed_symbol <- get_non_null_no_default (vs_fixed_symbol c) "fixed_symbol";
  do follows <- get_non_null (vs_follows_classes c) "follows_classes" [];
  let has_follows := match follows with [] => false | _ => true end in
  do _ <- combo (is_some fixed_vram) (is_some fixed_symbol) "fixed_vram" "fixed_symbol";
  do _ <- combo (is_some fixed_vram) has_follows "fixed_vram" "follows_classes";
  do _ <- combo (is_some fixed_symbol) has_follows "fixed_symbol" "follows_classes";
  do _ <- (if andb (andb (negb (is_some fixed_vram)) (negb (is_some fixed_symbol))) (negb has_follows)
           then Err (EMissingAnyOfOptionalFields "'fixed_vram', 'fixed_symbol', 'follows_classes'")
           else Ok tt);
  Ok (VramClass name fixed_vram fixed_symbol follows (keep_of_skeep (vs_keep c))).

Definition parse_assign (a : assign_serial) : res symbol_assignment :=
  let name := opt_str (plain_str (as_name a)) in
  let value := opt_str (plain_str (as_value a)) in
  do _ <- (if is_empty name then Err (EEmptyValue "name") else Ok tt);
  do _ <- (if is_empty value then Err (EEmptyValue "value") else Ok tt);
  do provide <- get_non_null (as_provide a) "provide" false;
  do hidden <- get_non_null (as_hidden a) "hidden" false;
  do c <- parse_conds (as_conds a);
  Ok (SymbolAssignment name value provide hidden c).

Definition parse_required (r : required_serial) : res required_symbol :=
  let name := opt_str (plain_str (rs_name r)) in
  do _ <- (if is_empty name then Err (EEmptyValue "name") else Ok tt);
  do c <- parse_conds (rs_conds r);
  Ok (RequiredSymbol name c).

Definition parse_assert (a : assert_serial) : res assert_entry :=
  let check := opt_str (plain_str (ats_check a)) in
  let msg := opt_str (plain_str (ats_error_message a)) in
  do _ <- (if is_empty check then Err (EEmptyValue "check") else Ok tt);
  do _ <- (if is_empty msg then Err (EEmptyValue "error_message") else Ok tt);
  do c <- parse_conds (ats_conds a);
  Ok (AssertEntry check msg c).

Definition segment_with_keep_files (s : segment) (k : keep) (files : list file_info) : segment :=
  Segment (sg_name s) files (sg_fixed_vram s) (sg_fixed_symbol s) (sg_follows_segment s)
          (sg_vram_class s) (sg_dir s) (sg_gp_info s) (sg_conds s) (alloc_sections s)
          (noload_sections s) (subalign s) (segment_start_align s) (segment_end_align s)
          (section_start_align s) (section_end_align s) (sections_start_alignment s)
          (sections_end_alignment s) (wildcard_sections s) (fill_value s) (sections_subgroups s) k.

(* Segment::pass_down_keep_sections *)
Definition pass_down_segment (k : keep) (s : segment) : segment :=
  match k with
  | KAbsent => s
  | _ => match sg_keep s with
         | KAbsent => segment_with_keep_files s k (map (pass_down_file k) (sg_files s))
         | _ => s
         end
  end.

Definition find_class (name : string) (l : list vram_class) : option vram_class :=
  find (fun c => String.eqb (vc_name c) name) l.

Definition class_pass_down (classes : list vram_class) (s : segment) : segment :=
  match sg_vram_class s with
  | Some cn => match find_class cn classes with
               | Some c => pass_down_segment (vc_keep c) s
               | None => s
               end
  | None => s
  end.

(* DocumentSerial::unserialize *)
Definition unserialize_document (d : document_serial) : res document :=
  do sto <- get_non_null_no_default (ds_settings d) "settings";
  do st <- (match sto with None => Ok default_settings | Some s => parse_settings s end);
  let ssegs := match ds_segments d with Some l => l | None => [] end in
  do _ <- (match ssegs with [] => Err (EEmptyValue "segments") | _ => Ok tt end);
  do sclasses <- get_non_null (ds_vram_classes d) "vram_classes" [];
  do classes <- map_res parse_class sclasses;
  do segments <- map_res (parse_segment st) ssegs;
  do entry <- get_non_null_no_default (ds_entry d) "entry";
  do sassigns <- get_non_null (ds_symbol_assignments d) "symbol_assignments" [];
  do assigns <- map_res parse_assign sassigns;
  do sreq <- get_non_null (ds_required_symbols d) "required_symbols" [];
  do req <- map_res parse_required sreq;
  do sasserts <- get_non_null (ds_asserts d) "asserts" [];
  do asserts <- map_res parse_assert sasserts;
  Ok (Document st classes (map (class_pass_down classes) segments) entry assigns req asserts).

(* Document::read_file after the YAML text has become a document_serial *)
Definition parse (d : document_serial) : res document :=
  if serde_ok d then unserialize_document d else Err EYaml.
