(* linker_writer.rs, partial_linker_writer.rs and traits.rs::add_whole_document: from a Document
   and run-time settings to script ASTs plus the writer's recorded state.  No proofs here. *)
From Slinky Require Import Model.Types Model.Generated Model.Runtime Model.Style Model.Script.
Local Open Scope string_scope.

Record wcfg := WCfg {
  reference_partial : bool;      (* reference_partial_objects *)
  kind_syms : bool;              (* emit_sections_kind_symbols *)
  section_syms : bool }.         (* emit_section_symbols *)

Definition cfg_normal : wcfg := WCfg false true true.
Definition cfg_main_partial : wcfg := WCfg true true true.
Definition cfg_sub_partial : wcfg := WCfg false false false.

(* the writer's mutable state that influences later output: files_paths (an IndexSet of paths; a
   PathBuf is compared, hashed and displayed through its components, so each path is kept as its
   component list) and the `emitted` flag of each class *)
Record wstate := WState {
  ws_paths : list (list string);
  ws_emitted : list string }.

Definition ws0 : wstate := WState [] [].

Definition comps_eqb (a b : list string) : bool :=
  if list_eq_dec string_dec a b then true else false.

Definition comps_mem (c : list string) (l : list (list string)) : bool := existsb (comps_eqb c) l.

Definition add_path (p : string) (ws : wstate) : wstate :=
  let c := components p in
  if comps_mem c (ws_paths ws) then ws else WState (ws_paths ws ++ [c])%list (ws_emitted ws).

Definition mark_emitted (c : string) (ws : wstate) : wstate :=
  WState (ws_paths ws) (c :: ws_emitted ws).

Definition out := (list stmt * wstate)%type.

(* ---------- section_order: which sections are emitted at [section] for this file ---------- *)

(* sort key (position in the part's section list, name); None sorts before Some (fix F3 added the
   name as tie-break) *)
Definition key_le (sections : list string) (a b : string) : bool :=
  match position a sections, position b sections with
  | None, None => String.leb a b
  | None, Some _ => true
  | Some _, None => false
  | Some i, Some j => if Nat.eqb i j then String.leb a b else Nat.leb i j
  end.

Fixpoint insert_sorted (le : string -> string -> bool) (x : string) (l : list string) : list string :=
  match l with
  | [] => [x]
  | y :: r => if le x y then x :: l else y :: insert_sorted le x r
  end.

Fixpoint sort_by (le : string -> string -> bool) (l : list string) : list string :=
  match l with
  | [] => []
  | x :: r => insert_sorted le x (sort_by le r)
  end.

Definition sections_here (f : file_info) (section : string) (sections : list string) : list string :=
  match fi_section_order f with
  | [] => [section]
  | so =>
      sort_by (key_le sections)
        ((if is_some (lookup section so) then [] else [section]) ++
         map fst (filter (fun kv => String.eqb (snd kv) section) so))%list
  end.

(* ---------- emitting files ---------- *)

Definition keeps (k : keep) (section : string) : bool :=
  match k with
  | KAbsent => false
  | KAll b => b
  | KWhich l => mem_str section l
  end.

Fixpoint fold_out {A} (f : A -> wstate -> res out) (l : list A) (ws : wstate) : res out :=
  match l with
  | [] => Ok ([], ws)
  | x :: r =>
      do o1 <- f x ws;
      do o2 <- fold_out f r (snd o1);
      Ok ((fst o1 ++ fst o2)%list, snd o2)
  end.

(* the set of sections that can be the [section] argument of emit_section_for_file: bounds the
   length of a chain of distinct sub-group expansions *)
Definition chain_universe (seg : segment) : list string :=
  (alloc_sections seg ++ noload_sections seg ++ flat_map snd (sections_subgroups seg))%list.

Definition chain_fuel (seg : segment) : nat := S (S (List.length (chain_universe seg))).

(* the sub-group table an entry consults: a group leaves the sub-group expansion to its files *)
Definition subgroups_for (seg : segment) (f : file_info) : list (string * list string) :=
  match fi_kind f with
  | KGroup => []
  | _ => sections_subgroups seg
  end.

Section Emit.
  Variable rt : runtime.
  Variable sty : style.
  Variable cfg : wcfg.
  Variable seg : segment.
  Variable sections : list string.      (* the part's list: alloc_sections or noload_sections *)

  (* emit_section_for_file + emit_file.  Structural on the file tree; inside one file the chain of
     sub-group expansions is bounded by [n] (never exhausted, see Proofs) and guarded by the stack
     of sections being expanded for this file (fix F6). *)
  Fixpoint emit_sff (f : file_info) : nat -> list string -> string -> string -> wstate -> res out :=
    fix chain (n : nat) (stack : list string) (section : string) (base : string) (ws : wstate)
        {struct n} : res out :=
      match n with
      | O => Err (ECrash "emit_section_for_file: recursion bound")
      | S n' =>
          if mem_str section stack then Err (ESubgroupCycle (sg_name seg) section) else
          let emit_file (k : string) (ws : wstate) : res out :=
            if negb (should_emit rt (fi_conds f)) then Ok ([], ws) else
            let keep := keeps (fi_keep f) k in
            match fi_kind f with
            | KObject =>
                do p <- escape_path rt (fi_path f);
                let path := push base p in
                Ok ([SInput keep (display path) None k (wildcard_sections seg)], add_path path ws)
            | KArchive =>
                do p <- escape_path rt (fi_path f);
                let path := push base p in
                Ok ([SInput keep (display path) (Some (fi_subfile f)) k (wildcard_sections seg)],
                    add_path path ws)
            | KPad =>
                Ok (if String.eqb (fi_section f) k then [SDotAdd (fi_pad_amount f)] else [], ws)
            | KLinkerOffset =>
                Ok (if String.eqb (fi_section f) k
                    then [SAssign false false true (linker_offset sty (fi_linker_offset_name f)) EDot]
                    else [], ws)
            | KGroup =>
                do d <- escape_path rt (fi_dir f);
                let new_base := push base d in
                (fix kids (l : list file_info) (ws : wstate) : res out :=
                   match l with
                   | [] => Ok ([], ws)
                   | c :: r =>
                       do o1 <- emit_sff c (chain_fuel seg) [] k new_base ws;
                       do o2 <- kids r (snd o1);
                       Ok ((fst o1 ++ fst o2)%list, snd o2)
                   end) (fi_files f) ws
            end in
          fold_out
            (fun k ws =>
               do o1 <- emit_file k ws;
               do o2 <- (if reference_partial cfg then Ok ([], snd o1) else
                         match lookup k (subgroups_for seg f) with
                         | Some others =>
                             fold_out (fun other ws => chain n' (section :: stack) other base ws)
                                      others (snd o1)
                         | None => Ok ([], snd o1)
                         end);
               Ok ((fst o1 ++ fst o2)%list, snd o2))
            (sections_here f section sections) ws
      end.

  (* emit_section *)
  Definition emit_section (base_path : string) (section : string) (ws : wstate) : res out :=
    do b0 <- escape_path rt base_path;
    do b <- (if reference_partial cfg then Ok b0
             else do d <- escape_path rt (sg_dir seg); Ok (push b0 d));
    fold_out (fun f ws => emit_sff f (chain_fuel seg) [] section b ws) (sg_files seg) ws.
End Emit.

(* ---------- symbols around sections ---------- *)

Definition opt_align (a : option N) : list stmt :=
  match a with Some n => [SAlign "." n] | None => [] end.

Definition linker_symbol (sym : string) (e : expr) : stmt := SAssign false false true sym e.

Definition sym_end_size (start end_ size : string) (value : expr) : list stmt :=
  [linker_symbol end_ value; linker_symbol size (EAbsSub end_ start)].

Definition kind_name (seg : segment) (noload : bool) : string :=
  sg_name seg ++ "_" ++ (if noload then "noload" else "alloc").

Definition sections_kind_start (sty : style) (cfg : wcfg) (seg : segment) (noload : bool) : list stmt :=
  if kind_syms cfg
  then [linker_symbol (segment_vram_start sty (kind_name seg noload)) EDot; SBlank]
  else [].

Definition sections_kind_end (sty : style) (cfg : wcfg) (seg : segment) (noload : bool) : list stmt :=
  if kind_syms cfg
  then SBlank :: sym_end_size (segment_vram_start sty (kind_name seg noload))
                              (segment_vram_end sty (kind_name seg noload))
                              (segment_vram_size sty (kind_name seg noload)) EDot
  else [].

Definition gp_stmt (rt : runtime) (seg : segment) (section : string) : list stmt :=
  match sg_gp_info seg with
  | Some g =>
      if andb (should_emit rt (gp_conds g)) (String.eqb (gp_section g) section)
      then [SAssign (gp_provide g) (gp_hidden g) false "_gp" (EDotPlus (gp_offset g))]
      else []
  | None => []
  end.

Definition section_symbol_start (rt : runtime) (sty : style) (cfg : wcfg) (seg : segment)
           (section : string) : list stmt :=
  if section_syms cfg then
    (opt_align (section_start_align seg) ++
     opt_align (lookup section (sections_start_alignment seg)) ++
     gp_stmt rt seg section ++
     [linker_symbol (segment_section_start sty (sg_name seg) section) EDot])%list
  else [].

Definition section_symbol_end (sty : style) (cfg : wcfg) (seg : segment) (section : string) : list stmt :=
  if section_syms cfg then
    (opt_align (section_end_align seg) ++
     opt_align (lookup section (sections_end_alignment seg)) ++
     sym_end_size (segment_section_start sty (sg_name seg) section)
                  (segment_section_end sty (sg_name seg) section)
                  (segment_section_size sty (sg_name seg) section) EDot)%list
  else [].

Definition opt_fill (seg : segment) : list stmt :=
  match fill_value seg with Some v => [SFill v] | None => [] end.

(* ---------- multi-segment: write_segment ---------- *)

Definition segment_addr (sty : style) (seg : segment) : option expr :=
  match sg_fixed_vram seg, sg_fixed_symbol seg, sg_follows_segment seg, sg_vram_class seg with
  | Some v, _, _, _ => Some (EHex8 v)
  | None, Some s, _, _ => Some (ERaw s)
  | None, None, Some f, _ => Some (ESym (segment_vram_end sty f))
  | None, None, None, Some c => Some (ESym (vram_class_start sty c))
  | None, None, None, None => None
  end.

Section Segments.
  Variable rt : runtime.
  Variable st : settings.
  Variable cfg : wcfg.
  Let sty := linker_symbols_style st.

  (* the groups of one part: for each section: start symbols, the files, end symbols, and a blank
     line between consecutive groups *)
  Fixpoint part_groups (seg : segment) (sections : list string) (rest : list string) (ws : wstate)
    : res out :=
    match rest with
    | [] => Ok ([], ws)
    | section :: rest' =>
        do o1 <- emit_section rt sty cfg seg sections (base_path st) section ws;
        do o2 <- part_groups seg sections rest' (snd o1);
        Ok ((section_symbol_start rt sty cfg seg section ++ fst o1 ++
             section_symbol_end sty cfg seg section ++
             (match rest' with [] => [] | _ => [SBlank] end) ++ fst o2)%list, snd o2)
    end.

  Definition write_segment (seg : segment) (sections : list string) (noload : bool) (ws : wstate)
    : res out :=
    do o <- part_groups seg sections sections ws;
    Ok ((sections_kind_start sty cfg seg noload ++
         [SOutSec ("." ++ sg_name seg ++ (if noload then ".noload" else ""))
                  (if noload then None else segment_addr sty seg)
                  (if noload then None else Some (segment_rom_start sty (sg_name seg)))
                  noload (subalign seg)
                  (opt_fill seg ++ fst o)] ++
         sections_kind_end sty cfg seg noload)%list, snd o).

  (* single-segment: one output section per configured section *)
  Fixpoint single_groups (seg : segment) (sections : list string) (noload : bool)
           (rest : list string) (ws : wstate) : res out :=
    match rest with
    | [] => Ok ([], ws)
    | section :: rest' =>
        do o1 <- emit_section rt sty cfg seg sections (base_path st) section ws;
        do o2 <- single_groups seg sections noload rest' (snd o1);
        Ok ((section_symbol_start rt sty cfg seg section ++
             [SOutSec section None None noload (subalign seg) (opt_fill seg ++ fst o1)] ++
             section_symbol_end sty cfg seg section ++
             (match rest' with [] => [] | _ => [SBlank] end) ++ fst o2)%list, snd o2)
    end.

  Definition write_single_segment (seg : segment) (sections : list string) (noload : bool)
             (ws : wstate) : res out :=
    do o <- single_groups seg sections noload sections ws;
    Ok ((sections_kind_start sty cfg seg noload ++ fst o ++
         sections_kind_end sty cfg seg noload)%list, snd o).

  (* ---------- vram classes ---------- *)

  (* LinkerWriter::new: IndexMap insert keeps the first position and the last value of a name *)
  Variable classes : list vram_class.

  Fixpoint class_names (l : list vram_class) (seen : list string) : list string :=
    match l with
    | [] => []
    | c :: r => if mem_str (vc_name c) seen then class_names r seen
                else vc_name c :: class_names r (vc_name c :: seen)
    end.

  Definition class_get (name : string) : option vram_class :=
    find (fun c => String.eqb (vc_name c) name) (rev classes).

  Definition class_start_stmts (c : vram_class) (name : string) : list stmt :=
    (match vc_fixed_vram c, vc_fixed_symbol c with
     | Some v, _ => [linker_symbol (vram_class_start sty name) (EHex8 v)]
     | None, Some s => [linker_symbol (vram_class_start sty name) (ERaw s)]
     | None, None =>
         linker_symbol (vram_class_start sty name) (EHex8 0) ::
         map (fun o => SMaxSelf (vram_class_start sty name) (vram_class_end sty o))
             (vc_follows_classes c)
     end ++
     [linker_symbol (vram_class_end sty name) (EHex8 0); SBlank])%list.

  (* add_segment *)
  Definition add_segment (seg : segment) (ws : wstate) : res out :=
    if negb (should_emit rt (sg_conds seg)) then Ok ([], ws) else
    let name := sg_name seg in
    do cls <-
      (match sg_vram_class seg with
       | Some cn =>
           match class_get cn with
           | None => Err (EMissingVramClassForSegment name cn)
           | Some c =>
               if mem_str cn (ws_emitted ws) then Ok ([], ws)
               else Ok (class_start_stmts c cn, mark_emitted cn ws)
           end
       | None => Ok ([], ws)
       end);
    do o1 <- write_segment seg (alloc_sections seg) false (snd cls);
    do o2 <- write_segment seg (noload_sections seg) true (snd o1);
    Ok ((fst cls ++
         (match segment_start_align seg with
          | Some a => [SAlign "__romPos" a; SAlign "." a] | None => [] end) ++
         [linker_symbol (segment_rom_start sty name) (ESym "__romPos");
          linker_symbol (segment_vram_start sty name) (EAddr ("." ++ name))] ++
         fst o1 ++ [SBlank] ++ fst o2 ++ [SBlank] ++
         [SRomAdd ("." ++ name)] ++
         (match segment_end_align seg with
          | Some a => [SAlign "__romPos" a; SAlign "." a] | None => [] end) ++
         sym_end_size (segment_vram_start sty name) (segment_vram_end sty name)
                      (segment_vram_size sty name) EDot ++
         sym_end_size (segment_rom_start sty name) (segment_rom_end sty name)
                      (segment_rom_size sty name) (ESym "__romPos") ++
         (match sg_vram_class seg with
          | Some cn => [SBlank; SMaxSelf (vram_class_end sty cn) (segment_vram_end sty name)]
          | None => [] end) ++
         [SBlank])%list, snd o2).

  (* begin_sections (the part inside the SECTIONS block) *)
  Definition hardcoded_gp_stmts : list stmt :=
    match hardcoded_gp_value st with
    | Some v => [SAssign false false false "_gp" (EHex8 v)]
    | None => []
    end.

  Definition begin_sections_body : list stmt :=
    ([SAssign false false false "__romPos" (ERaw "0x0")] ++ hardcoded_gp_stmts ++ [SBlank])%list.

  (* end_sections (the part inside the SECTIONS block) *)
  Definition blank_if (b : bool) : list stmt := if b then [SBlank] else [].

  Definition end_sections_body (ws : wstate) : list stmt :=
    let sizes :=
      flat_map (fun cn => if mem_str cn (ws_emitted ws)
                          then [linker_symbol (vram_class_size sty cn)
                                              (ESub (vram_class_end sty cn) (vram_class_start sty cn))]
                          else []) (class_names classes []) in
    let ln1 := nonempty sizes in
    let allow := sections_allowlist st in
    let ln2 := orb ln1 (nonempty allow) in
    let extra := sections_allowlist_extra st in
    let ln3 := orb ln2 (nonempty extra) in
    (sizes ++
     (if nonempty allow then blank_if ln1 ++ map SSingleEntry allow else []) ++
     (if nonempty extra then blank_if ln2 ++ map SSingleEntry extra else []) ++
     (if orb (discard_wildcard_section st) (nonempty (sections_denylist st))
      then blank_if ln3 ++ [SDiscard (sections_denylist st) (discard_wildcard_section st)]
      else []))%list.

  (* add_single_segment *)
  Definition add_single_segment (seg : segment) (ws : wstate) : res out :=
    do o1 <- write_single_segment seg (alloc_sections seg) false ws;
    do o2 <- write_single_segment seg (noload_sections seg) true (snd o1);
    Ok ([SSections
           ((* fix F7: the hard-coded _gp, as in begin_sections; not in partial sub-scripts *)
            (if section_syms cfg
             then match hardcoded_gp_stmts with [] => [] | l => l ++ [SBlank] end
             else []) ++
            (match sg_fixed_vram seg with
             | Some v => [SAssign false false false "." (EHex8 v); SBlank]
             | None => [] end) ++
            fst o1 ++ [SBlank] ++ fst o2 ++ [SBlank] ++ end_sections_body (snd o2))%list],
        snd o2).

  (* add_all_segments for LinkerWriter *)
  Definition add_all_segments (segs : list segment) (ws : wstate) : res out :=
    if single_segment_mode st then
      match segs with
      | [seg] => add_single_segment seg ws
      | _ => Err (EInvalidSegmentCount (List.length segs))       (* fix F4 *)
      end
    else
      do o <- fold_out add_segment segs ws;
      Ok ([SSections (begin_sections_body ++ fst o ++ end_sections_body (snd o))%list], snd o).
End Segments.

(* ---------- top-level statements (add_entry .. add_all_asserts) ---------- *)

Definition entry_stmts (e : option string) : list stmt :=
  match e with Some s => [SBlank; SEntry s] | None => [] end.

Definition assignment_stmts (rt : runtime) (l : list symbol_assignment) : list stmt :=
  match l with
  | [] => []
  | _ => SBlank ::
         flat_map (fun a => if should_emit rt (sa_conds a)
                            then [SAssign (sa_provide a) (sa_hidden a) false (sa_name a) (ERaw (sa_value a))]
                            else []) l
  end.

Definition required_msg (n : string) : string := "Required symbol '" ++ n ++ "' was not linked".

Definition required_stmts (rt : runtime) (l : list required_symbol) : list stmt :=
  match l with
  | [] => []
  | _ => SBlank ::
         flat_map (fun r => if should_emit rt (rq_conds r)
                            then [SExtern (rq_name r);
                                  SAssert ("DEFINED(" ++ rq_name r ++ ")") (required_msg (rq_name r))]
                            else []) l
  end.

Definition assert_stmts (rt : runtime) (l : list assert_entry) : list stmt :=
  match l with
  | [] => []
  | _ => SBlank ::
         flat_map (fun a => if should_emit rt (ae_conds a)
                            then [SAssert (ae_check a) (ae_error_message a)] else []) l
  end.

Definition tail_stmts (rt : runtime) (d : document) : list stmt :=
  (entry_stmts (doc_entry d) ++ assignment_stmts rt (doc_symbol_assignments d) ++
   required_stmts rt (doc_required_symbols d) ++ assert_stmts rt (doc_asserts d))%list.

Definition version_stmts (rt : runtime) : list stmt :=
  if rt_emit_version_comment rt then [SComment version_comment_text; SBlank] else [].

(* ---------- whole writers ---------- *)

(* one LinkerWriter after add_whole_document: its script and its files_paths *)
Record writer_out := WriterOut {
  wo_script : list stmt;
  wo_paths : list (list string) }.

(* LinkerWriter::new + add_whole_document *)
Definition gen_normal (d : document) (rt : runtime) : res writer_out :=
  do o <- add_all_segments rt (doc_settings d) cfg_normal (doc_vram_classes d) (doc_segments d) ws0;
  Ok (WriterOut (version_stmts rt ++ fst o ++ tail_stmts rt d)%list (ws_paths (snd o))).

Definition new_object (p : string) : file_info :=
  FileInfo p KObject "" 0%N "" "" [] [] "" no_conds KAbsent.

Definition clone_with_new_files (s : segment) (files : list file_info) : segment :=
  Segment (sg_name s) files (sg_fixed_vram s) (sg_fixed_symbol s) (sg_follows_segment s)
          (sg_vram_class s) (sg_dir s) (sg_gp_info s) (sg_conds s) (alloc_sections s)
          (noload_sections s) (subalign s) (segment_start_align s) (segment_end_align s)
          (section_start_align s) (section_end_align s) (sections_start_alignment s)
          (sections_end_alignment s) (wildcard_sections s) (fill_value s) (sections_subgroups s)
          (sg_keep s).

Record partial_out := PartialOut {
  po_main : writer_out;
  po_subs : list (string * writer_out) }.    (* (segment name, its partial writer) *)

(* PartialLinkerWriter::add_all_segments, one segment *)
Definition partial_segment (d : document) (rt : runtime) (folder : string) (seg : segment)
           (acc : wstate * list (string * writer_out))
  : res (list stmt * (wstate * list (string * writer_out))) :=
  let st := doc_settings d in
  if negb (should_emit rt (sg_conds seg)) then Ok ([], acc) else
  do sub <- add_single_segment rt st cfg_sub_partial (doc_vram_classes d) seg ws0;
  let p := push folder (sg_name seg ++ ".o") in
  do o <- add_segment rt st cfg_main_partial (doc_vram_classes d)
                      (clone_with_new_files seg [new_object p]) (fst acc);
  Ok (fst o,
      (snd o, (snd acc ++ [(sg_name seg,
                            WriterOut (version_stmts rt ++ fst sub)%list (ws_paths (snd sub)))])%list)).

Fixpoint partial_segments (d : document) (rt : runtime) (folder : string) (segs : list segment)
         (acc : wstate * list (string * writer_out))
  : res (list stmt * (wstate * list (string * writer_out))) :=
  match segs with
  | [] => Ok ([], acc)
  | s :: r =>
      do o1 <- partial_segment d rt folder s acc;
      do o2 <- partial_segments d rt folder r (snd o1);
      Ok ((fst o1 ++ fst o2)%list, snd o2)
  end.

(* PartialLinkerWriter::new + add_whole_document *)
Definition gen_partial (d : document) (rt : runtime) : res partial_out :=
  let st := doc_settings d in
  match partial_build_segments_folder st with
  | None => Err (EMissingRequiredField "partial_build_segments_folder")
  | Some folder =>
      do o <- partial_segments d rt folder (doc_segments d) (ws0, []);
      let ws := fst (snd o) in
      Ok (PartialOut
            (WriterOut (version_stmts rt ++
                        [SSections (begin_sections_body st ++ fst o ++
                                    end_sections_body st (doc_vram_classes d) ws)%list] ++
                        tail_stmts rt d)%list (ws_paths ws))
            (snd (snd o)))
  end.
